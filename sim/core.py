"""Simulator kernel: one integer decides a run.

Everything a run consults is derived from ``seed_i``:

* the *scheduler stream*  – ``random.Random(seed_i)``  (scenario, ops, faults, adversarial choices)
* the *entropy tape*      – the real process-global ``numpy.random`` state seeded with
  ``seed_i ^ 0x5EED`` (what the system under test consumes)

and every observable thing that happens is appended to one totally ordered event log whose
SHA-256 is the run fingerprint.  Logging never draws randomness and never reads a clock.
"""
import hashlib
import io
import json
import random
import struct
import sys

import numpy as np

MASK32 = 0xFFFFFFFF


def derive_seed(engine: str, master: int, index: int) -> int:
    h = hashlib.sha256(f"{engine}|{master}|{index}".encode()).digest()
    return int.from_bytes(h[:8], "big")


def tape_seed(seed_i: int) -> int:
    return (seed_i ^ 0x5EED) & MASK32


# --------------------------------------------------------------------------- hashing / comparing

def _canon(obj, h):
    """Feed a canonical byte representation of obj into hash h (order- and type-stable)."""
    if obj is None:
        h.update(b"N")
    elif isinstance(obj, (bool, np.bool_)):
        h.update(b"T" if obj else b"F")
    elif isinstance(obj, (int, np.integer)):
        h.update(b"i" + str(int(obj)).encode())
    elif isinstance(obj, (float, np.floating)):
        h.update(b"f" + struct.pack("<d", float(obj)))
    elif isinstance(obj, complex):
        h.update(b"c" + struct.pack("<dd", obj.real, obj.imag))
    elif isinstance(obj, str):
        h.update(b"s" + obj.encode())
    elif isinstance(obj, bytes):
        h.update(b"b" + obj)
    elif isinstance(obj, np.ndarray):
        a = np.ascontiguousarray(obj)
        h.update(b"a" + str(a.dtype).encode() + str(a.shape).encode())
        if a.dtype == object:
            for x in a.ravel():
                _canon(x, h)
        else:
            h.update(a.tobytes())
    elif isinstance(obj, (list, tuple)):
        h.update(b"[" + str(len(obj)).encode())
        for x in obj:
            _canon(x, h)
        h.update(b"]")
    elif isinstance(obj, dict):
        h.update(b"{")
        for k in sorted(obj, key=str):
            _canon(str(k), h)
            _canon(obj[k], h)
        h.update(b"}")
    elif hasattr(obj, "to_numpy"):
        _canon(np.asarray(obj.to_numpy()), h)
    elif hasattr(obj, "toarray"):
        _canon(np.asarray(obj.toarray()), h)
    else:
        h.update(b"r" + type(obj).__name__.encode())


def digest(obj) -> str:
    h = hashlib.sha1()
    _canon(obj, h)
    return h.hexdigest()[:16]


def as_vec(x):
    """Plain 1-D float ndarray copy of a state (CUQIarray / scalar / ndarray)."""
    if hasattr(x, "to_numpy"):
        x = x.to_numpy()
    return np.array(x, dtype=float).reshape(-1).copy()


def bit_equal(a, b) -> bool:
    """NaN-aware bitwise value equality of two array-likes (shape after ravel must match)."""
    a = as_vec(a)
    b = as_vec(b)
    if a.shape != b.shape:
        return False
    return bool(np.array_equal(a, b, equal_nan=True))


def close(a, b, rtol=1e-9) -> bool:
    """Soundness rule 2: |a-b| <= rtol*(1+|a|+|b|), elementwise; NaN==NaN, inf==inf."""
    a = np.asarray(a, dtype=float).reshape(-1)
    b = np.asarray(b, dtype=float).reshape(-1)
    if a.shape != b.shape:
        return False
    with np.errstate(invalid="ignore"):
        fin = np.isfinite(a) & np.isfinite(b)
        ok_fin = np.abs(a[fin] - b[fin]) <= rtol * (1 + np.abs(a[fin]) + np.abs(b[fin]))
        rest_a, rest_b = a[~fin], b[~fin]
        ok_rest = (np.isnan(rest_a) & np.isnan(rest_b)) | (rest_a == rest_b)
    return bool(ok_fin.all() and ok_rest.all())


def jsonable(o):
    if isinstance(o, dict):
        return {str(k): jsonable(v) for k, v in o.items()}
    if isinstance(o, (list, tuple)):
        return [jsonable(v) for v in o]
    if isinstance(o, np.ndarray):
        if o.ndim == 0:
            return jsonable(o.item())
        return [jsonable(v) for v in o.tolist()]
    if isinstance(o, (np.integer,)):
        return int(o)
    if isinstance(o, (np.floating, float)):
        f = float(o)
        if f != f:
            return "nan"
        if f in (float("inf"), float("-inf")):
            return "inf" if f > 0 else "-inf"
        return f
    if isinstance(o, (np.bool_,)):
        return bool(o)
    if hasattr(o, "to_numpy"):
        return jsonable(np.asarray(o.to_numpy()))
    return o


# --------------------------------------------------------------------------- run context

class Violation(Exception):
    pass


class Undecided(Exception):
    """The oracle cannot interpret the observation (soundness rule 4)."""


class SimCrash(Exception):
    """Injected crash at an arbitrary instant inside the system under test."""


class Ctx:
    """Per-run context: scheduler stream, event log, counters, violation list."""

    def __init__(self, seed_i: int, keep_events: int = 0):
        self.seed = seed_i
        self.sched = random.Random(seed_i)
        self._h = hashlib.sha256()
        self.n_events = 0
        self.keep = keep_events
        self.events = []            # last `keep` events, human readable (for replay files)
        self.faults = {}            # fault kind -> times it actually fired
        self.reach = {}             # reach probe -> hits
        self.counts = {}            # misc counters (transitions, decisions, undecided, ...)
        self.violations = []        # list of dicts
        self.nontrivial = False

    # -- event log
    def log(self, kind, *payload):
        self.n_events += 1
        self._h.update(kind.encode())
        _canon(payload, self._h)
        if self.keep:
            self.events.append([self.n_events, kind] + [_short(p) for p in payload])
            if len(self.events) > self.keep:
                del self.events[0]
        return self.n_events

    def fingerprint(self) -> str:
        return self._h.hexdigest()[:32]

    # -- counters
    def fault(self, kind, n=1):
        self.faults[kind] = self.faults.get(kind, 0) + n
        self.nontrivial = True
        self.log("fault", kind)

    def hit(self, probe, n=1):
        self.reach[probe] = self.reach.get(probe, 0) + n

    def count(self, name, n=1):
        self.counts[name] = self.counts.get(name, 0) + n

    # -- verdicts
    def violate(self, prop, oracle, sig=None, **detail):
        """Record a violation.  `sig` is the (small, stable) signature used for known-finding
        matching and for "same violation" during minimisation."""
        s = {"property": prop, "oracle": oracle}
        s.update(sig or {})
        v = {"property": prop, "oracle": oracle, "sig": s, "detail": jsonable(detail),
             "event": self.n_events}
        self.log("VIOLATION", prop, oracle, json.dumps(s, sort_keys=True))
        self.violations.append(v)
        return v

    def undecided(self, why):
        self.count("undecided")
        self.count("undecided:" + why)
        self.log("undecided", why)


def _short(p):
    if isinstance(p, np.ndarray):
        if p.size <= 6:
            return jsonable(p)
        return "ndarray%s#%s" % (p.shape, digest(p))
    if isinstance(p, (list, tuple)):
        return [_short(x) for x in p]
    if isinstance(p, dict):
        return {str(k): _short(v) for k, v in p.items()}
    if isinstance(p, (np.floating, np.integer, np.bool_)):
        return jsonable(p)
    if isinstance(p, (int, float, str, bool)) or p is None:
        return jsonable(p)
    return type(p).__name__


# --------------------------------------------------------------------------- RNG seam

_RNG_FUNCS = ["rand", "randn", "random", "random_sample", "standard_normal", "normal", "uniform",
              "exponential", "gamma", "laplace", "choice", "beta", "standard_cauchy"]


class SimRandom:
    """Logging / steering wrappers over numpy.random.<fn> (module attributes looked up at call
    time by CUQIpy).  The values still come from the real, seeded, process-global RandomState
    unless a *policy* replaces a scalar uniform (accept / select sites)."""

    def __init__(self, ctx: Ctx):
        self.ctx = ctx
        self.orig = {}
        self.policy = None          # callable(kind, args, kwargs, tape_value) -> value or None
        self.recording = None       # list collecting (kind, value) when an engine asks for it
        self.installed = False

    def install(self):
        if self.installed:
            return
        for name in _RNG_FUNCS:
            if hasattr(np.random, name):
                self.orig[name] = getattr(np.random, name)
                setattr(np.random, name, self._make(name))
        self.installed = True

    def uninstall(self):
        for name, f in self.orig.items():
            setattr(np.random, name, f)
        self.installed = False

    def _make(self, name):
        orig = self.orig[name]
        sim = self

        def wrapper(*a, **k):
            v = orig(*a, **k)
            if sim.policy is not None:
                r = sim.policy(name, a, k, v)
                if r is not None:
                    v = r
            arr = np.asarray(v)
            sim.ctx.log("rng", name, arr.shape, digest(arr))
            if sim.recording is not None:
                sim.recording.append((name, np.array(arr, copy=True), a, k))
            return v
        wrapper.__name__ = name
        return wrapper

    # tape control -----------------------------------------------------------------
    @staticmethod
    def seed_tape(seed32):
        np.random.seed(seed32 & MASK32)

    @staticmethod
    def get_state():
        return np.random.get_state()

    @staticmethod
    def set_state(st):
        np.random.set_state(st)

    @staticmethod
    def state_digest(st=None):
        st = np.random.get_state() if st is None else st
        return digest([st[0], np.asarray(st[1]), int(st[2]), int(st[3]), float(st[4])])


def rs_digest(rs) -> str:
    st = rs.get_state()
    return digest([st[0], np.asarray(st[1]), int(st[2]), int(st[3]), float(st[4])])


class setup_stream:
    """Context manager: swap a private RandomState tape in while a sampler is constructed or
    loaded after a simulated restart, so constructor-time draws cannot shift the main tape."""

    def __init__(self, seed32):
        self.seed = seed32 & MASK32

    def __enter__(self):
        self.saved = np.random.get_state()
        np.random.seed(self.seed)
        return self

    def __exit__(self, *exc):
        np.random.set_state(self.saved)
        return False


# --------------------------------------------------------------------------- inert progress / stdout

class _InertBar:
    def __init__(self, it):
        self.it = it

    def __iter__(self):
        return iter(self.it)

    def set_postfix_str(self, *a, **k):
        pass

    def set_description(self, *a, **k):
        pass

    def update(self, *a, **k):
        pass

    def close(self):
        pass


def inert_tqdm(it=None, *a, **k):
    return _InertBar(it if it is not None else [])


def install_inert_progress():
    import cuqi.experimental.mcmc._sampler as S
    import cuqi.experimental.mcmc._gibbs as G
    S.tqdm = inert_tqdm
    G.tqdm = inert_tqdm


class quiet:
    """Swallow stdout of the system under test (progress text) – byte-identical logs."""

    def __enter__(self):
        self.saved = sys.stdout
        sys.stdout = io.StringIO()
        return self

    def __exit__(self, *exc):
        sys.stdout = self.saved
        return False


def reset_volatile_globals():
    """State that a *new process* would start with (simulated process start)."""
    try:
        import scipy.linalg.interpolative as sli
        sli.seed("default")
    except Exception:
        pass


# --------------------------------------------------------------------------- in-memory file system

class SimFSError(OSError):
    pass


class _SimFile(io.BytesIO):
    def __init__(self, fs, path, mode, initial=b""):
        super().__init__(initial if "r" in mode else b"")
        self.fs, self.path, self.mode = fs, path, mode
        self._closed_once = False

    def write(self, b):
        self.fs._maybe_fault("write", self.path)
        n = super().write(b)
        self.fs.volatile[self.path] = self.getvalue()
        return n

    def close(self):
        if not self._closed_once:
            self._closed_once = True
            if "w" in self.mode or "a" in self.mode:
                try:
                    self.fs._maybe_fault("close", self.path)
                finally:
                    pass
                data = self.getvalue()
                self.fs.durable[self.path] = data
                self.fs.volatile.pop(self.path, None)
                # the byte image of a pickled dict depends on set/dict iteration order (PYTHONHASHSEED);
                # log an order-independent digest of the *content* instead of the raw bytes
                try:
                    import pickle
                    content = digest(pickle.loads(data))
                except Exception:
                    content = "unreadable"
                self.fs.ctx.log("fs", "close", self.path, len(data), content)
        super().close()

    def __exit__(self, *exc):
        self.close()
        return False


class SimFS:
    """In-memory files.  Bytes become durable on close(); a crash keeps only durable bytes,
    optionally *torn* (prefix of the in-flight bytes replaces the file) or *lost* (the previous
    version survives).  Fault plan: list of (op, errno_name) consumed in order of occurrence."""

    def __init__(self, ctx: Ctx):
        self.ctx = ctx
        self.durable = {}
        self.volatile = {}
        self.plan = []           # e.g. [("open","EIO")]: the next matching op raises

    def arm(self, op, kind):
        self.plan.append((op, kind))

    def _maybe_fault(self, op, path):
        for i, (o, kind) in enumerate(self.plan):
            if o == op:
                del self.plan[i]
                self.ctx.fault("fs_" + kind + "_" + op)
                import errno
                raise SimFSError(getattr(errno, kind), "simulated %s on %s(%s)" % (kind, op, path))

    def open(self, path, mode="r", *a, **k):
        path = str(path)
        self.ctx.log("fs", "open", path, mode)
        self._maybe_fault("open", path)
        if "r" in mode:
            if path not in self.durable:
                raise FileNotFoundError(path)
            return _SimFile(self, path, mode, self.durable[path])
        return _SimFile(self, path, mode)

    def crash(self, torn=None):
        """Process dies: in-flight (unclosed) bytes are lost, or torn into the durable file."""
        for p, data in list(self.volatile.items()):
            if torn is not None:
                self.durable[p] = data[: int(len(data) * torn)]
                self.ctx.fault("fs_torn_write")
            else:
                self.ctx.fault("fs_lost_write")
        self.volatile.clear()

    # --- sample batches (np.savez / os.makedirs / os.path.isdir as seen by cuqi.experimental.mcmc._sampler) ---
    def savez(self, file, **arrays):
        path = str(file)
        self.ctx.log("fs", "savez", path, sorted(arrays))
        self._maybe_fault("write", path)
        self.batches[path] = {k: np.array(v, copy=True) for k, v in arrays.items()}

    def install(self):
        import cuqi.experimental.mcmc._sampler as S
        S.open = self.open       # shadows the builtin for that module only
        self.batches = {}
        fs = self

        class _NP:
            """numpy as seen by the sampler module: everything real except savez"""
            def __getattr__(self_, name):
                if name == "savez":
                    return fs.savez
                return getattr(np, name)

        class _Path:
            def __getattr__(self_, name):
                if name == "isdir":
                    return lambda p_: True
                import os as _os
                return getattr(_os.path, name)

        class _OS:
            path = _Path()

            def __getattr__(self_, name):
                if name == "makedirs":
                    return lambda *a, **k: None
                import os as _os
                return getattr(_os, name)
        self._saved_np, self._saved_os = S.np, S.os
        S.np, S.os = _NP(), _OS()

    def uninstall(self):
        import cuqi.experimental.mcmc._sampler as S
        if "open" in S.__dict__:
            del S.open
        if hasattr(self, "_saved_np"):
            S.np, S.os = self._saved_np, self._saved_os


# --------------------------------------------------------------------------- probes

class Probe:
    """A logged, fault-injectable callable handed to CUQIpy in place of a user function.
    `ref` is the pure reference; oracles always call `ref`, never the probe."""

    def __init__(self, ctx: Ctx, name: str, ref, log_args=True):
        self.ctx, self.name, self.ref = ctx, name, ref
        self.calls = 0
        self.trace = None            # list of (args, value) when recording
        self.fault_plan = {}         # call number -> ("nan"|"-inf"|"inf"|"raise")
        self.fault_pred = None       # callable(call_no, args) -> kind or None
        self.enabled = True
        self.log_args = log_args

    def __call__(self, *args, **kw):
        self.calls += 1
        n = self.calls
        kind = None
        if self.enabled:
            kind = self.fault_plan.pop(n, None)
            if kind is None and self.fault_pred is not None:
                kind = self.fault_pred(n, args)
        if kind == "raise":
            self.ctx.fault("crash_in_" + self.name)
            raise SimCrash("%s call %d" % (self.name, n))
        val = self.ref(*args, **kw)
        if kind is not None:
            self.ctx.fault(kind + "_from_" + self.name)
            bad = {"nan": np.nan, "-inf": -np.inf, "inf": np.inf}[kind]
            val = bad if np.ndim(val) == 0 else np.full(np.shape(val), bad)
        if self.log_args:
            self.ctx.log("probe", self.name, n, [digest(np.asarray(a, dtype=float)) if _numlike(a) else "?" for a in args],
                         digest(np.asarray(val, dtype=float)) if _numlike(val) else "?")
        if self.trace is not None:
            self.trace.append(([np.array(a, dtype=float, copy=True) if _numlike(a) else a for a in args],
                               np.array(val, dtype=float, copy=True) if _numlike(val) else val, kind))
        return val


def _numlike(a):
    try:
        np.asarray(a, dtype=float)
        return True
    except Exception:
        return False
