"""Reference kernels for the closed-form block updates of the Gibbs joints in sim/zoo.py.

Written out in numpy from the *recipe* of the joint (matrices, data, hyper-prior constants) and the current
values of the other blocks; nothing here touches a cuqi distribution, a conditioned joint or a sampler.  The draw
consumes the entropy tape exactly as the documented algorithm does (one Gamma variate; one standard normal
vector per randomise-then-optimise step), so the result is comparable with the in-Gibbs draw to rounding.
"""
import numpy as np

EPS = np.finfo(float).eps


def D_zero(n):
    """First-order difference with zero boundary values: (n+1) x n."""
    D = np.zeros((n + 1, n))
    for i in range(n):
        D[i, i] = 1.0
        D[i + 1, i] = -1.0
    return D


def D_neumann(n):
    """First-order difference without boundary terms: (n-1) x n (its null space are the constants)."""
    D = np.zeros((n - 1, n))
    for i in range(n - 1):
        D[i, i], D[i, i + 1] = -1.0, 1.0
    return D


def gmrf_structure(n, bc="zero"):
    """(P, rank) of the GMRF structure matrix P = D'D for the boundary condition."""
    D = D_zero(n) if bc == "zero" else D_neumann(n)
    return D.T @ D, (n if bc == "zero" else n - 1)


def gmrf_factor(n, bc="zero"):
    """Upper-triangular R with R'R = P (for the improper Neumann field: P + sqrt(eps) I, the documented regularisation
    of the factor the randomise-then-optimise samplers work with)."""
    P, _ = gmrf_structure(n, bc)
    if bc != "zero":
        P = P + np.sqrt(EPS) * np.eye(n)
    return np.linalg.cholesky(P).T


class Undecided(Exception):
    pass


def cgls(M, b, x0, maxit, tol):
    """CGLS for min ||Mx - b|| (Bjorck), started at x0: the algorithm LinearRTO documents."""
    x = np.array(x0, float).copy()
    r = b - M @ x
    s = M.T @ r
    p = s.copy()
    norms0 = np.linalg.norm(s)
    gamma = norms0 ** 2
    k, flag = 0, False
    while k < maxit and not flag:
        k += 1
        q = M @ p
        delta = np.linalg.norm(q) ** 2
        if delta == 0:
            delta = EPS
        alpha = gamma / delta
        x = x + alpha * p
        r = r - alpha * q
        s = M.T @ r
        gamma1 = gamma
        norms = np.linalg.norm(s)
        gamma = norms ** 2
        p = s + (gamma / gamma1) * p
        thr = norms0 * tol
        if abs(norms - thr) <= 1e-6 * thr:
            raise Undecided("CGLS stopping test within rounding of its threshold")
        flag = bool(norms <= thr) or bool(np.linalg.norm(x) * tol >= 1)
    return x


def rto_steps(tape, liks, L2, x0, maxit, tol, n_steps, prior_mean=None):
    """liks: [(sqrt-precision scalar, A, y)], L2: prior square-root precision matrix, prior_mean: vector or None (zero)."""
    M = np.vstack([c * A for (c, A, y) in liks] + [L2])
    pm = np.zeros(L2.shape[1]) if prior_mean is None else np.asarray(prior_mean, float)
    b = np.hstack([c * y for (c, A, y) in liks] + [L2 @ pm])
    np.random.set_state(tape)
    x = np.array(x0, float)
    for _ in range(n_steps):
        yy = b + np.random.randn(len(b))
        x = cgls(M, yy, x, maxit, tol)
    return x


def gamma_steps(tape, shape, rate, n_steps):
    np.random.set_state(tape)
    v = None
    for _ in range(n_steps):
        v = np.random.gamma(shape=shape, scale=1.0 / rate, size=(1, 1)).T
    return np.ravel(v)


def reference_draw(rec, data, block, kind, knobs, others, start, tape, n_steps):
    """The reference update of `block` (sampler `kind`) of the joint `rec` given the other blocks' values.
    Returns a vector, or None when no reference kernel is written for this (shape, block, kind)."""
    shape, n, m = rec.get("shape", "x_s"), rec["n"], rec["m"]
    A, y = data["A"], data["y"]
    g = lambda k: float(np.ravel(others[k])[0])
    v = lambda k: np.asarray(others[k], float).ravel()
    gmrf = rec.get("xprior", "gauss") == "gmrf"
    bc = rec.get("bc", "zero")
    xm = float(rec.get("xmean", 0.0)) * np.ones(n)
    if kind == "Conjugate":
        if block == "s" and shape == "x_s" and data.get("noise_C") is not None:
            r_ = A @ v("x") - y
            return gamma_steps(tape, m / 2 + 1.0, 0.5 * float(r_ @ np.linalg.solve(data["noise_C"], r_)) + 0.1, n_steps)
        if block == "s" and shape in ("x_s", "x_d_s", "x_s_w", "x_s_step"):
            return gamma_steps(tape, m / 2 + 1.0, 0.5 * np.sum((A @ v("x") - y) ** 2) + 0.1, n_steps)
        if block == "s" and shape == "x_z_s":
            return gamma_steps(tape, m / 2 + 1.0, 0.5 * np.sum((A @ v("x") + data["B"] @ v("z") - y) ** 2) + 0.1, n_steps)
        if block in ("l1", "l2") and shape == "x_l1_l2":
            Ai, yi, b0 = (A, y, 0.1) if block == "l1" else (data["A2"], data["y2"], 0.3)
            return gamma_steps(tape, len(yi) / 2 + (1.0 if block == "l1" else 2.0), 0.5 * np.sum((Ai @ v("x") - yi) ** 2) + b0, n_steps)
        if block == "d" and shape == "x_d_s":
            # d enters the joint through  d^(rank/2) exp(-d/2 x'Px)  *  Gamma(d; 1, 0.1):  rank is n for a proper field and
            # n-1 for the improper Neumann field
            if gmrf:
                P, rank = gmrf_structure(n, bc)
                R = gmrf_factor(n, bc)        # (for the Neumann field this carries the sqrt(eps) regularisation, a 1e-8 effect)
                return gamma_steps(tape, rank / 2 + 1.0, 0.5 * float(np.sum((R @ (v("x") - xm)) ** 2)) + 0.1, n_steps)
            return gamma_steps(tape, n / 2 + 1.0, 0.5 * np.sum((v("x") - xm) ** 2) + 0.1, n_steps)
        if block == "d" and shape == "x_d_a":
            return gamma_steps(tape, n / 2 + 1.0, 0.5 * np.sum(v("x") ** 2) + g("a"), n_steps)
        if block == "d" and shape == "x_d_reg":
            return gamma_steps(tape, np.count_nonzero(v("x")) / 2 + 1.0, 0.5 * np.sum(v("x") ** 2) + 0.1, n_steps)
    if kind == "ConjugateApprox" and block == "d" and shape == "x_d_lmrf":
        Dx = D_zero(n) @ (v("x") - data.get("lmrf_loc", 0.0))      # the field enters the prior through x - location
        return gamma_steps(tape, n + 1.0, float(np.sum(Dx ** 2 / np.sqrt(Dx ** 2 + 1e-5))) + 0.1, n_steps)
    if kind == "Direct" and block == "w" and shape == "x_s_w":
        # w ~ N(0, 0.7 I_2) independent of everything else: mean + e / sqrt-precision
        np.random.set_state(tape)
        w = None
        for _ in range(n_steps):
            w = np.sqrt(0.7) * np.random.randn(2, 1).ravel()
        return w
    if kind == "UGLA" and block == "x" and shape == "x_d_lmrf":
        # unadjusted Laplace approximation: at every step the LMRF prior (scale 1/d) is replaced by the Gaussian with
        # square-root precision sqrt(d) * W(x)^(1/2) D, W = diag(1/sqrt((Dx)^2 + beta)), linearised at the CURRENT x
        maxit, tol, beta = knobs.get("maxit", 50), knobs.get("tol", 1e-4), knobs.get("beta", 1e-5)
        D, c, d = D_zero(n), 1 / np.sqrt(0.3), g("d")
        np.random.set_state(tape)
        x = np.array(start, float)
        for _ in range(n_steps):
            w = 1 / np.sqrt((D @ x) ** 2 + beta)
            M = np.vstack([c * A, np.sqrt(d) * (np.sqrt(w)[:, None] * D)])
            b = np.hstack([c * y, np.zeros(n + 1)])
            x = cgls(M, b + np.random.randn(len(b)), x, maxit, tol)
        return x
    if kind == "LinearRTO" and block == "m" and shape == "y_x_m":
        # the "data" of this block is another sampled block: x ~ N(B m, 0.5 I), m ~ N(0, I)
        maxit, tol = knobs.get("maxit", 10), knobs.get("tol", 1e-6)
        return rto_steps(tape, [(1 / np.sqrt(0.5), data["Bm"], v("x"))], np.eye(2), start, maxit, tol, n_steps)
    if kind == "LinearRTO" and block == "x":
        maxit, tol = knobs.get("maxit", 10), knobs.get("tol", 1e-6)
        I = np.eye(n)
        if shape in ("x_s", "x_s_w", "x_s_step"):
            if shape == "x_s" and data.get("noise_C") is not None:
                return None                   # (the whitening factor of a correlated noise is not unique: no reference)
            L2 = np.sqrt(3.0) * gmrf_factor(n) if (gmrf and shape == "x_s") else I
            return rto_steps(tape, [(np.sqrt(g("s")), A, y)], L2, start, maxit, tol, n_steps,
                             prior_mean=xm if shape == "x_s" else None)
        if shape == "x_d_s":
            L2 = np.sqrt(g("d")) * (gmrf_factor(n, bc) if gmrf else I)
            return rto_steps(tape, [(np.sqrt(g("s")), A, y)], L2, start, maxit, tol, n_steps, prior_mean=xm)
        if shape == "y_x_m":
            return rto_steps(tape, [(1 / np.sqrt(0.3), A, y)], I / np.sqrt(0.5), start, maxit, tol, n_steps,
                             prior_mean=data["Bm"] @ v("m"))
        if shape == "x_d_a":
            return rto_steps(tape, [(1 / np.sqrt(0.3), A, y)], np.sqrt(g("d")) * I, start, maxit, tol, n_steps)
        if shape == "x_l1_l2":
            liks = {"y1": (np.sqrt(g("l1")), A, y), "y2": (np.sqrt(g("l2")), data["A2"], data["y2"])}
            # (the normal vector of one step is dealt out to the likelihoods in the order the joint was given them)
            return rto_steps(tape, [liks[k_] for k_ in data["lik_order"]], I, start, maxit, tol, n_steps)
    return None
