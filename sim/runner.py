"""Batch runner: one os.fork() per simulated run, 16 long-lived workers, aggregation,
known-finding triage, delta-debugging minimiser, replay files, determinism self-test,
evidence writer."""
import json
import os
import selectors
import signal
import subprocess
import sys
import time
import traceback

from . import core

VERIF = os.path.dirname(os.path.dirname(os.path.abspath(__file__)))
RUN_TIMEOUT_S = 120.0


# --------------------------------------------------------------------------- single run (in child)

def exec_case(engine, case, keep_events=0):
    """Execute one case in *this* process and return the result dict."""
    import numpy as np
    ctx = core.Ctx(case["seed"], keep_events=keep_events)
    ctx.sched = __import__("random").Random(core.derive_seed("exec", case["seed"], 0))
    core.reset_volatile_globals()
    core.SimRandom.seed_tape(core.tape_seed(case["seed"]))
    core.install_inert_progress()
    err = None
    if os.environ.get("VERIF_SELFTEST_LEAK"):       # self-test of the determinism self-test: a hash-seed dependent event
        ctx.log("leak", hash("leak") % 1000)
    try:
        with core.quiet():
            engine.run(case, ctx)
    except core.Violation:
        pass
    except BaseException as e:  # harness exceptions are classified apart from violations
        err = "%s: %s\n%s" % (type(e).__name__, e, traceback.format_exc(limit=12))
    ctx.log("final_rng", core.SimRandom.state_digest())
    res = {
        "seed": case["seed"], "fp": ctx.fingerprint(), "violations": ctx.violations,
        "faults": ctx.faults, "reach": ctx.reach, "counts": ctx.counts,
        "nontrivial": bool(ctx.nontrivial), "n_events": ctx.n_events, "err": err,
    }
    if keep_events:
        res["events"] = ctx.events
    return res


def gen_case(engine, master, index, tier):
    import random
    seed_i = core.derive_seed(engine.name, master, index)
    case = engine.gen(random.Random(seed_i), tier)
    case["seed"] = seed_i
    case["engine"] = engine.name
    return case


def _forked(fn, timeout=RUN_TIMEOUT_S):
    """Run fn() in a forked child; return its JSON-able result or a harness-error dict."""
    r, w = os.pipe()
    pid = os.fork()
    if pid == 0:
        code = 0
        try:
            os.close(r)
            try:
                import faulthandler
                faulthandler.dump_traceback_later(timeout * 0.9, exit=False, file=sys.stderr)
            except Exception:
                pass
            out = fn()
            data = json.dumps(core.jsonable(out)).encode()
            off = 0
            while off < len(data):
                off += os.write(w, data[off:off + 65536])
        except BaseException:
            try:
                os.write(w, json.dumps({"err": "child: " + traceback.format_exc(limit=8)}).encode())
            except Exception:
                pass
            code = 3
        finally:
            os._exit(code)
    os.close(w)
    chunks = []
    deadline = time.time() + timeout
    timed_out = False
    sel = selectors.DefaultSelector()
    sel.register(r, selectors.EVENT_READ)
    while True:
        left = deadline - time.time()
        if left <= 0:
            timed_out = True
            break
        if sel.select(timeout=min(left, 1.0)):
            b = os.read(r, 1 << 16)
            if not b:
                break
            chunks.append(b)
    sel.close()
    os.close(r)
    if timed_out:
        try:
            os.kill(pid, signal.SIGKILL)
        except OSError:
            pass
    try:
        os.waitpid(pid, 0)
    except OSError:
        pass
    if timed_out:
        return {"err": "timeout after %.0fs" % timeout, "timeout": True}
    try:
        return json.loads(b"".join(chunks).decode())
    except Exception as e:
        return {"err": "child died without result (%s)" % e}


def run_case_forked(engine, case, keep_events=0):
    return _forked(lambda: exec_case(engine, case, keep_events))


# --------------------------------------------------------------------------- worker pool

def _worker_loop(engine, master, tier, indices, wfd, deadline):
    out = os.fdopen(wfd, "w")
    for i in indices:
        if time.time() > deadline:
            break

        def one(i=i):
            case = gen_case(engine, master, i, tier)
            res = exec_case(engine, case)
            res["i"] = i
            if i < 3 or res["violations"]:
                res["case"] = case
            return res
        res = _forked(one)
        res.setdefault("i", i)
        out.write(json.dumps(res) + "\n")
        out.flush()
    out.close()
    os._exit(0)


def run_batch(engine, master, tier, n_runs, workers, wall_budget_s, first_index=0):
    """Run indices first_index..first_index+n_runs-1 on `workers` processes.  Returns list of
    result dicts (one per executed run) – runs not started because the wall budget expired are
    simply absent (and reported as such)."""
    deadline = time.time() + wall_budget_s
    pipes = []
    pids = []
    workers = max(1, min(workers, n_runs))
    for w in range(workers):
        idx = list(range(first_index + w, first_index + n_runs, workers))
        r, wfd = os.pipe()
        pid = os.fork()
        if pid == 0:
            os.close(r)
            for rr in pipes:
                try:
                    os.close(rr.fileno())
                except Exception:
                    pass
            try:
                _worker_loop(engine, master, tier, idx, wfd, deadline)
            finally:
                os._exit(0)
        os.close(wfd)
        pipes.append(os.fdopen(r, "r"))
        pids.append(pid)
    results = []
    sel = selectors.DefaultSelector()
    for p in pipes:
        sel.register(p, selectors.EVENT_READ)
    open_pipes = len(pipes)
    while open_pipes:
        for key, _ in sel.select(timeout=5.0):
            line = key.fileobj.readline()
            if not line:
                sel.unregister(key.fileobj)
                open_pipes -= 1
                continue
            try:
                results.append(json.loads(line))
            except Exception:
                results.append({"err": "bad worker line", "i": -1})
    for p in pipes:
        p.close()
    for pid in pids:
        try:
            os.waitpid(pid, 0)
        except OSError:
            pass
    results.sort(key=lambda r: r.get("i", -1))
    return results


# --------------------------------------------------------------------------- known findings

def load_findings():
    p = os.path.join(VERIF, "known_findings.json")
    if not os.path.exists(p):
        return []
    with open(p) as f:
        return json.load(f).get("findings", [])


def match_finding(v, findings):
    for f in findings:
        if f.get("status") != "open":
            continue
        if f.get("property") != v["property"]:
            continue
        ms = f.get("match", {})
        for m in (ms if isinstance(ms, list) else [ms]):
            if all(v["sig"].get(k) == val for k, val in m.items()):
                return f
    return None


# --------------------------------------------------------------------------- minimiser

def _same_violation(res, sig):
    if res.get("err"):
        return False
    return any(v["sig"] == sig for v in res.get("violations", []))


def minimise(engine, case, sig, budget=200, log=None):
    """Delta debugging over case['ops'] plus engine-specific simplifications, while the same
    violation signature persists.  Every candidate is executed in a fresh forked child."""
    tries = [0]

    def fails(c):
        if tries[0] >= budget:
            return False
        tries[0] += 1
        return _same_violation(run_case_forked(engine, c), sig)

    best = json.loads(json.dumps(case))
    ops_key = "ops" if isinstance(best.get("ops"), list) else None
    improved = True
    while improved and tries[0] < budget:
        improved = False
        if ops_key:
            ops = best[ops_key]
            n = 2
            while len(ops) >= 2 and tries[0] < budget:
                chunk = max(1, len(ops) // n)
                removed = False
                for start in range(0, len(ops), chunk):
                    cand_ops = ops[:start] + ops[start + chunk:]
                    if not cand_ops:
                        continue
                    cand = dict(best)
                    cand[ops_key] = cand_ops
                    if fails(cand):
                        best, ops = cand, cand_ops
                        n = max(n - 1, 2)
                        removed = improved = True
                        break
                if not removed:
                    if chunk == 1:
                        break
                    n = min(len(ops), n * 2)
        for cand in engine.shrink(best):
            if tries[0] >= budget:
                break
            if fails(cand):
                best = cand
                improved = True
                break
    return best, tries[0]


# --------------------------------------------------------------------------- replay files

def write_replay(prop, engine, case, minimised, sig, res_min, tries):
    os.makedirs(os.path.join(VERIF, "replays"), exist_ok=True)
    tag = __import__("hashlib").sha1(json.dumps(sig, sort_keys=True).encode()).hexdigest()[:6]
    path = os.path.join(VERIF, "replays", "%s-%s-%d-%s.json" % (prop, engine.name, case["seed"], tag))
    with open(path, "w") as f:
        json.dump({"property": prop, "engine": engine.name, "seed": case["seed"],
                   "signature": sig, "case": minimised, "original_case": case,
                   "fingerprint": res_min.get("fp"), "violations": res_min.get("violations"),
                   "events_tail": res_min.get("events"), "minimiser_replays": tries}, f, indent=1)
    return path


def replay(engines, path):
    with open(path) as f:
        rp = json.load(f)
    engine = engines[rp["engine"]]
    res = run_case_forked(engine, rp["case"], keep_events=60)
    ok_sig = _same_violation(res, rp["signature"])
    same_fp = res.get("fp") == rp.get("fingerprint")
    print("replay engine=%s seed=%d reproduced=%s fingerprint_equal=%s" %
          (rp["engine"], rp["seed"], ok_sig, same_fp))
    for v in res.get("violations", []):
        print("  violation:", json.dumps(v["sig"], sort_keys=True), json.dumps(v["detail"])[:400])
    if res.get("err"):
        print("  harness error:", res["err"])
    if ok_sig:
        print("VIOLATION property=%s replay=%s" % (rp["property"], path))
        return 1
    return 0


# --------------------------------------------------------------------------- determinism self-test

def fingerprints_inprocess(engine, master, tier, indices):
    out = {}
    for i in indices:
        def one(i=i):
            return exec_case(engine, gen_case(engine, master, i, tier))
        out[str(i)] = _forked(one).get("fp")
    return out


def fingerprints_fresh_interpreter(prop, engine, master, tier, indices, hashseed):
    env = dict(os.environ)
    env["PYTHONHASHSEED"] = str(hashseed)
    env["VERIF_SEED"] = str(master)
    cmd = [sys.executable, "-W", "ignore", "-B", os.path.join(VERIF, "sim", "main.py"), prop,
           "--tier", tier, "--engine", engine.name,
           "--fingerprints", ",".join(str(i) for i in indices)]
    p = subprocess.run(cmd, env=env, capture_output=True, text=True, timeout=900, cwd=VERIF)
    for line in p.stdout.splitlines():
        if line.startswith("FINGERPRINTS "):
            return json.loads(line[len("FINGERPRINTS "):])
    raise RuntimeError("fresh interpreter produced no fingerprints: rc=%s\n%s\n%s" %
                       (p.returncode, p.stdout[-2000:], p.stderr[-2000:]))
