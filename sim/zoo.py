"""Target / sampler zoo.  Everything is built from a small JSON recipe so that a "freshly
constructed sampler of the same configuration" and a pristine twin can be rebuilt at will, and so
that every probe has a pure reference function."""
import numpy as np
import cuqi
from cuqi.distribution import (Gaussian, GMRF, LMRF, Gamma, Posterior, UserDefinedDistribution,
                               JointDistribution)
from cuqi.implicitprior import RegularizedGaussian
from cuqi.model import LinearModel, Model

from .core import Probe, Ctx


def core_ctx0():
    return Ctx(0)

# --------------------------------------------------------------------------- smooth densities

def _coupling(dim, zseed):
    rs = np.random.RandomState(zseed)
    B = rs.randn(dim, dim) * 0.3
    return 0.5 * (B + B.T)


def ref_density(kind, dim, zseed):
    """Return (logp, grad) pure reference functions."""
    C = _coupling(dim, zseed)
    mu = np.random.RandomState(zseed + 1).randn(dim) * 0.5

    if kind == "quartic":
        def logp(x):
            x = np.asarray(x, float).reshape(-1)
            d = x - mu
            return float(-0.5 * d @ d - 0.1 * np.sum(d ** 4) + 0.5 * d @ C @ d * 0.3)

        def grad(x):
            x = np.asarray(x, float).reshape(-1)
            d = x - mu
            return -d - 0.4 * d ** 3 + 0.3 * (C @ d)
    elif kind == "gauss":
        P = np.eye(dim) * 1.5 + C @ C.T

        def logp(x):
            d = np.asarray(x, float).reshape(-1) - mu
            return float(-0.5 * d @ P @ d)

        def grad(x):
            d = np.asarray(x, float).reshape(-1) - mu
            return -(P @ d)
    elif kind == "heavy":
        nu = 3.0

        def logp(x):
            d = np.asarray(x, float).reshape(-1) - mu
            return float(-0.5 * (nu + dim) * np.log1p(d @ d / nu))

        def grad(x):
            d = np.asarray(x, float).reshape(-1) - mu
            return -(nu + dim) * d / (nu + d @ d)
    elif kind == "banana":
        def logp(x):
            x = np.asarray(x, float).reshape(-1)
            y = x.copy()
            if dim > 1:
                y[1] = x[1] + 0.3 * x[0] ** 2 - 0.3
            return float(-0.5 * y @ y / 1.2)

        def grad(x):
            x = np.asarray(x, float).reshape(-1)
            y = x.copy()
            g = np.zeros(dim)
            if dim > 1:
                y[1] = x[1] + 0.3 * x[0] ** 2 - 0.3
            g[:] = -y / 1.2
            if dim > 1:
                g[0] += -y[1] / 1.2 * 0.6 * x[0]
            return g
    elif kind == "boxed":
        # bounded support: a smooth density inside the box |x_i - mu_i| < 2.2, zero outside (log-density -inf)
        def logp(x):
            d = np.asarray(x, float).reshape(-1) - mu
            if np.any(np.abs(d) >= 2.2):
                return -np.inf
            return float(-0.5 * d @ d - 0.05 * np.sum(d ** 4))

        def grad(x):
            d = np.asarray(x, float).reshape(-1) - mu
            if np.any(np.abs(d) >= 2.2):
                return np.full(d.shape, np.nan)
            return -d - 0.2 * d ** 3
    else:
        raise ValueError(kind)
    return logp, grad


DENSITY_KINDS = ["quartic", "gauss", "heavy", "banana"]


def post_target(ctx, rec, with_grad=True):
    """A genuine cuqi Posterior (linear-Gaussian likelihood, Gaussian prior) as target.  The seam is the object
    boundary: the instance's logd / gradient are wrapped by logging, fault-injectable probes that call the real bound
    methods; the reference functions are the same methods of a separately built twin."""
    prec = dict(rec, prior=rec.get("prior", "gauss_vec"), m=rec["dim"] + 1, model="matrix")
    if rec["kind"] == "post_deconv":
        prec.update(model="deconv", psf=["gauss", "moffat", "defocus"][rec["zseed"] % 3],
                    dbc=["periodic", "zero", "mirror", "reflect", "nearest"][rec["zseed"] % 5])
    if rec["kind"] == "post_fd":
        # a posterior with a gradient-free nonlinear model; its gradient is the library's finite-difference approximation
        # (enable_FD on the target itself): what users do to run gradient-based samplers on PDE problems
        def mk_fd():
            A, y = _lin_data(prec)
            x = _prior(prec)
            Mo = Model(lambda x: np.tanh(A @ np.asarray(x, float).reshape(-1)), range_geometry=A.shape[0], domain_geometry=rec["dim"])
            P_ = Posterior(Gaussian(Mo(x), 0.5, name="y").to_likelihood(y), x)
            P_.enable_FD(epsilon=1e-7)
            return P_, None
        post, _ = mk_fd()
        twin, _ = mk_fd()
    elif rec["kind"] == "post_const":
        # the posterior is what a hierarchical joint reduces to once data and hyper-parameter are fixed: it carries the
        # evaluated hyper-prior as an additive constant (logd = logpdf + constant)
        def mk():
            A, y = _lin_data(prec)
            x = _prior(prec)
            s_ = Gamma(2.0, 1.0, name="s")
            yy = Gaussian(LinearModel(A)(x), cov=lambda s: 1 / s, name="y")
            return JointDistribution(yy, x, s_)(y=y, s=1.7), None
        post, _ = mk()
        twin, _ = mk()
    else:
        post, _ = lin_posterior(Ctx(0), prec)
        twin, _ = lin_posterior(Ctx(0), prec)
    real_logd, real_grad = post.logd, post.gradient
    ref_logd = lambda x: float(np.ravel(np.asarray(twin.logd(np.asarray(x, float).reshape(-1)), float))[0])
    ref_grad = lambda x: np.array(twin.gradient(np.asarray(x, float).reshape(-1)), float, copy=True).reshape(-1)
    if rec["kind"] == "post_fd":
        # the finite-difference gradient evaluates the log-density itself: it is taken from a third, un-probed build so that
        # these internal evaluations do not appear as target evaluations of the sampler
        inner, _ = mk_fd()
        real_grad = inner.gradient
    p_logd = Probe(ctx, "logd", lambda x: real_logd(x))
    p_grad = Probe(ctx, "grad", lambda x: real_grad(x)) if with_grad else None
    post.logd = p_logd
    if with_grad:
        post.gradient = p_grad
    return post, {"logd": p_logd, "grad": p_grad, "ref_logd": ref_logd, "ref_grad": ref_grad}


def _map_exp03(v):
    return np.exp(0.3 * v)


def _imap_exp03(f):
    return np.log(f) / 0.3


def _geom_post(rec):
    """Posterior whose unknown lives on a geometry with a non-trivial parameter-to-function map.
    post_step  : StepExpansion (dim parameters -> 3*dim function values), linear model acting on function values
    post_mapped: MappedGeometry exp(0.3 x), generic model acting on function values.
    Returns (posterior, closed-form log-density in numpy)."""
    from cuqi.geometry import StepExpansion, MappedGeometry, Continuous1D
    n = rec["dim"]
    rs = np.random.RandomState(rec["zseed"])
    cov = np.linspace(0.5, 1.5, n)
    m = n + 1
    y = rs.randn(m)

    def lg(r_, c_):
        r_ = np.ravel(np.asarray(r_, float))
        c_ = np.broadcast_to(c_, r_.shape)
        return float(-0.5 * np.sum(np.log(2 * np.pi * c_)) - 0.5 * np.sum(r_ * r_ / c_))
    if rec["kind"] == "post_udl":
        # user-defined likelihood whose callables hand out PERSISTENT arrays (linear log-likelihood b.x with the constant
        # gradient b): legal, and nothing may write into b.  Reference density and gradient in closed form.
        from cuqi.likelihood import UserDefinedLikelihood
        b_ = rs.randn(n) * 0.7
        b_ref = b_.copy()
        x = Gaussian(np.zeros(n), cov, name="x")
        lik = UserDefinedLikelihood(dim=n, logpdf_func=lambda x: float(b_ @ np.asarray(x, float).reshape(-1)),
                                    gradient_func=lambda x: b_, geometry=x.geometry)
        ref = lambda v: float(b_ref @ np.asarray(v, float).reshape(-1)) + lg(v, cov)
        ref.grad = lambda v: b_ref - np.asarray(v, float).reshape(-1) / cov
        return Posterior(lik, x), ref
    if rec["kind"] == "post_pde":
        # forward model behind the PDE interface: -u'' = x on a grid of n nodes, the solution is observed at the nodes
        from cuqi.pde import SteadyStateLinearPDE
        from cuqi.model import PDEModel
        h_ = 1.0 / (n + 1)
        grid = np.linspace(h_, 1 - h_, n)
        K = (2 * np.eye(n) - np.eye(n, k=1) - np.eye(n, k=-1)) / h_ ** 2
        Kinv = np.linalg.inv(K)
        yp = rs.randn(n) * 0.1
        pde = SteadyStateLinearPDE(lambda f: (K, f), grid_sol=grid, grid_obs=grid)
        M = PDEModel(pde, range_geometry=Continuous1D(grid), domain_geometry=Continuous1D(grid))
        x = Gaussian(np.zeros(n), cov, geometry=Continuous1D(grid), name="x")
        lik = Gaussian(M(x), 0.05, name="y").to_likelihood(yp)
        return Posterior(lik, x), (lambda v: lg(yp - Kinv @ np.asarray(v, float).reshape(-1), 0.05) + lg(v, cov))
    if rec["kind"] == "post_step":
        nf = 3 * n
        A = rs.randn(m, nf)
        g = StepExpansion(np.linspace(0, 1, nf), n_steps=n)
        x = Gaussian(np.zeros(n), cov, geometry=g, name="x")
        M = LinearModel(A, domain_geometry=g, range_geometry=m)
        p2f = lambda v: np.repeat(np.asarray(v, float).reshape(-1), 3)
    else:
        A = rs.randn(m, n)
        g = MappedGeometry(Continuous1D(n), map=_map_exp03, imap=_imap_exp03)     # (module-level functions: two builds are equal)
        x = Gaussian(np.zeros(n), cov, geometry=g, name="x")
        M = Model(lambda x: A @ x, range_geometry=m, domain_geometry=g)
        p2f = lambda v: np.exp(0.3 * np.asarray(v, float).reshape(-1))
    lik = Gaussian(M(x), 0.5, name="y").to_likelihood(y)
    ref = lambda v: lg(y - A @ p2f(v), 0.5) + lg(v, cov)
    return Posterior(lik, x), ref


def geom_post_target(ctx, rec, with_grad=False):
    post, ref = _geom_post(rec)
    real_logd = post.logd
    p_logd = Probe(ctx, "logd", lambda x: real_logd(x))
    post.logd = p_logd
    p_grad = None
    if with_grad and hasattr(ref, "grad"):
        real_grad = post.gradient
        p_grad = Probe(ctx, "grad", lambda x: real_grad(x))
        post.gradient = p_grad
    return post, {"logd": p_logd, "grad": p_grad, "ref_logd": ref, "ref_grad": getattr(ref, "grad", None)}


def ud_target(ctx, rec, with_grad=True):
    """UserDefinedDistribution whose callables are probes.  rec: {kind, dim, zseed}."""
    if rec["kind"] in ("post", "post_const", "post_deconv", "post_fd"):
        return post_target(ctx, rec, with_grad)
    if rec["kind"] in ("post_step", "post_mapped", "post_pde"):
        return geom_post_target(ctx, rec)
    if rec["kind"] == "post_udl":
        return geom_post_target(ctx, rec, with_grad)
    logp, grad = ref_density(rec["kind"], rec["dim"], rec["zseed"])
    p_logd = Probe(ctx, "logd", logp)
    p_grad = Probe(ctx, "grad", grad) if with_grad else None
    t = UserDefinedDistribution(dim=rec["dim"], logpdf_func=p_logd, gradient_func=p_grad)
    return t, {"logd": p_logd, "grad": p_grad, "ref_logd": logp, "ref_grad": grad}


# --------------------------------------------------------------------------- posteriors

def _lin_data(rec):
    rs = np.random.RandomState(rec["zseed"])
    n, m = rec["dim"], rec.get("m", rec["dim"] + 2)
    A = rs.randn(m, n)
    y = rs.randn(m)
    return A, y


def _prior(rec, name="x"):
    n = rec["dim"]
    k = rec.get("prior", "gauss")
    pm = rec.get("prior_mean", 0.0)
    if k == "gauss":
        return Gaussian(pm * np.ones(n), rec.get("prior_cov", 0.8), name=name)
    if k == "gauss_vec":
        return Gaussian(pm * np.ones(n), np.linspace(0.5, 1.5, n), name=name)
    if k == "gauss_full":
        rs = np.random.RandomState(rec["zseed"] + 7)
        B = rs.randn(n, n) * 0.3
        return Gaussian(pm * np.ones(n), np.eye(n) + B @ B.T, name=name)
    if k == "gauss_sqrtprec_full":
        # given by a dense, non-triangular square root of the precision
        rs = np.random.RandomState(rec["zseed"] + 7)
        B = rs.randn(n, n) * 0.3
        return Gaussian(pm * np.ones(n), sqrtprec=np.eye(n) + B, name=name)
    if k == "gmrf":
        return GMRF(pm * np.ones(n), rec.get("prior_prec", 2.0), bc_type=rec.get("bc", "zero"), name=name)
    if k == "lmrf":
        loc = np.linspace(-0.2, 0.3, n) if rec.get("lmrf_vector_location") else 0
        return LMRF(loc, rec.get("prior_scale", 0.5), geometry=n, bc_type=rec.get("bc", "zero"), name=name)
    if k == "reg":
        return RegularizedGaussian(pm * np.ones(n), rec.get("prior_cov", 1.0),
                                   constraint=rec.get("constraint", "nonnegativity"), name=name)
    raise ValueError(k)


def lin_posterior(ctx, rec):
    """Posterior with linear forward model (matrix or probe function pair)."""
    A, y = _lin_data(rec)
    n = rec["dim"]
    prior = _prior(rec)
    probes = {}
    if rec.get("model") == "deconv":
        # the (function-based) forward operator of the shipped 1-D deconvolution test problem; data of matching length
        import cuqi.testproblem
        model = cuqi.testproblem.Deconvolution1D(dim=n, PSF=rec.get("psf", "gauss"), PSF_param=2.0, PSF_size=min(3, n),
                                                 BC=rec.get("dbc", "periodic")).model
        y = np.random.RandomState(rec["zseed"] + 3).randn(n)
    elif rec.get("model", "matrix") == "matrix":
        model = LinearModel(A)
    else:
        pf = Probe(ctx, "forward", lambda x: A @ np.asarray(x, float).reshape(-1))
        pa = Probe(ctx, "adjoint", lambda z: A.T @ np.asarray(z, float).reshape(-1))
        probes = {"forward": pf, "adjoint": pa}
        model = LinearModel(pf, pa, range_geometry=A.shape[0], domain_geometry=n)
    lik = Gaussian(model(prior), rec.get("noise_cov", 0.5), name="y").to_likelihood(y)
    return Posterior(lik, prior), probes


def multi_lik_posterior(ctx, rec):
    """MultipleLikelihoodPosterior: two Gaussian likelihoods with linear models on one Gaussian prior."""
    A, y = _lin_data(rec)
    rs = np.random.RandomState(rec["zseed"] + 3)
    A2, y2 = rs.randn(*A.shape), rs.randn(A.shape[0])
    prior = _prior(rec)
    l1 = Gaussian(LinearModel(A)(prior), rec.get("noise_cov", 0.5), name="y1")
    l2 = Gaussian(LinearModel(A2)(prior), 0.8, name="y2")
    return JointDistribution(l1, l2, prior)(y1=y, y2=y2), {}


def rto_tuple_target(rec):
    """legacy LinearRTO 5-tuple (data, model, L_sqrtprec, P_mean, P_sqrtprec)"""
    A, y = _lin_data(rec)
    n, m = rec["dim"], A.shape[0]
    return (y, A, np.sqrt(1 / rec.get("noise_cov", 0.5)) * np.eye(m), rec.get("prior_mean", 0.0) * np.ones(n),
            np.sqrt(1 / rec.get("prior_cov", 0.8)) * np.eye(n))


def nonlin_posterior(ctx, rec):
    """Posterior for pCN: Gaussian prior, nonlinear probe model tanh(Ax)."""
    A, y = _lin_data(rec)
    n = rec["dim"]
    prior = _prior(rec)
    if rec.get("boxed_lik"):
        # a hard constraint in the likelihood: outside the box the model output is astronomically far from any data
        def fwd(x):
            x = np.asarray(x, float).reshape(-1)
            # (huge but finite: the squared misfit overflows to inf, the log-likelihood is -inf and nothing is NaN)
            return np.tanh(A @ x) if np.all(np.abs(x) < 2.5) else np.full(A.shape[0], 1e200)
    else:
        fwd = lambda x: np.tanh(A @ np.asarray(x, float).reshape(-1))
    pf = Probe(ctx, "forward", fwd)
    model = Model(pf, range_geometry=A.shape[0], domain_geometry=n)
    nc = rec.get("noise_cov", 0.5)
    lik = Gaussian(model(prior), nc, name="y").to_likelihood(y)
    mdim = A.shape[0]
    ref_loglik = lambda x: float(-0.5 * np.sum((y - fwd(x)) ** 2) / nc - 0.5 * mdim * np.log(2 * np.pi * nc))
    return Posterior(lik, prior), {"forward": pf, "ref_loglik": ref_loglik, "A": A, "y": y}


def conjugate_target(ctx, rec):
    """Posterior over a Gamma precision-type hyper-parameter s of a Gaussian / GMRF."""
    rs = np.random.RandomState(rec["zseed"])
    m = rec.get("m", 5)
    yobs = rs.randn(m)
    s = Gamma(rec.get("shape", 1.0), rec.get("rate", 1e-2), name="s")
    form = rec.get("form", "cov")
    if form == "cov":
        y = Gaussian(np.zeros(m), cov=lambda s: 1 / s, name="y")
    elif form == "prec":
        y = Gaussian(np.zeros(m), prec=lambda s: s, name="y")
    else:
        y = GMRF(np.zeros(m), prec=lambda s: s, name="y")
    return JointDistribution(y, s)(y=yobs), {}


def conjugate_approx_target(ctx, rec):
    rs = np.random.RandomState(rec["zseed"])
    m = rec.get("m", 5)
    xobs = rs.randn(m)
    s = Gamma(rec.get("shape", 1.0), rec.get("rate", 1e-2), name="s")
    x = LMRF(0, scale=lambda s: 1 / s, geometry=m, name="x")
    return JointDistribution(x, s)(x=xobs), {}


def direct_target(ctx, rec):
    n = rec["dim"]
    if rec.get("family", "gauss") == "gauss":
        return Gaussian(np.zeros(n), rec.get("prior_cov", 0.7)), {}
    return Gamma(2.0 * np.ones(n), 1.5), {}


# --------------------------------------------------------------------------- experimental samplers

EXP_KINDS = ["MH", "CWMH", "PCN", "ULA", "MALA", "NUTS", "LinearRTO", "RegularizedLinearRTO",
             "UGLA", "Conjugate", "ConjugateApprox", "Direct"]


def gen_exp_scenario(r, kind=None, dim_max=5):
    """Draw a scenario for an experimental sampler from the scheduler stream r."""
    kind = kind or r.choice(EXP_KINDS)
    dim = r.randint(1, dim_max)
    if kind == "CWMH" and dim < 2:
        dim = 2          # experimental CWMH does not support dim == 1 (0-d proposal draw) - outside C14
    zseed = r.randrange(1, 10 ** 6)
    sc = {"kind": kind, "target": {"dim": dim, "zseed": zseed}, "knobs": {}}
    t, k = sc["target"], sc["knobs"]
    ip = [round(r.uniform(-1, 1), 3) for _ in range(dim)]
    if kind in ("MH", "CWMH", "ULA", "MALA", "NUTS"):
        t["kind"] = r.choice(DENSITY_KINDS + ["post", "post_const", "post_deconv"] + (["post_fd", "post_udl"] if kind in ("MALA", "NUTS", "ULA") else [])
                             + (["boxed", "boxed"] if kind in ("MH", "CWMH", "MALA") else [])
                             + (["post_step", "post_mapped", "post_pde"] if kind in ("MH", "CWMH") else []))
        if t["kind"] == "boxed" and kind in ("MH", "CWMH") and r.random() < 0.4:
            ip = [round(v * 6, 3) for v in ip]            # possibly a start value of zero density (outside the support)
        if r.random() < 0.8:
            k["initial_point"] = ip
    if kind in ("MH", "MALA", "NUTS", "ULA", "LinearRTO") and "initial_point" in k and r.random() < 0.12:
        k["ip_cuqiarray"] = True          # the start vector is handed over as a geometry-carrying CUQIarray
    elif kind in ("MH", "CWMH", "MALA", "ULA", "NUTS", "PCN") and "initial_point" in k and r.random() < 0.08 \
            and t.get("kind") not in ("boxed", "post_mapped"):
        k["ip_int"] = True

    if kind == "MH":
        k["scale"] = round(r.choice([0.05, 0.3, 0.8, 1.0, 2.5]), 3)
        if r.random() < 0.2:
            k["proposal"] = "gauss_aniso"
    elif kind == "CWMH" and r.random() < 0.25:
        k["scale"] = round(r.choice([0.1, 0.5, 1.0]), 3)
        k["proposal"] = r.choice(["callable", "normal_cond"])
    elif kind == "CWMH":
        if r.random() < 0.5:
            k["scale"] = round(r.choice([0.1, 0.5, 1.0, 2.0]), 3)
        else:
            k["scale"] = [round(r.uniform(0.1, 2.0), 3) for _ in range(dim)]
    elif kind in ("ULA", "MALA"):
        k["scale"] = round(r.choice([0.01, 0.05, 0.2, 0.6]), 3)
    elif kind == "NUTS":
        if r.random() < 0.15:
            t["kind"] = "boxed"            # bounded support: non-finite leaves arise without fault injection
        k["max_depth"] = r.randint(0, 4)
        k["step_size"] = r.choice([None, None, 0.05, 0.3, 0.9, 2.5])
        if r.random() < 0.3:
            k["opt_acc_rate"] = r.choice([0.5, 0.8])
    elif kind == "PCN":
        t.update(prior=r.choice(["gauss", "gauss_vec", "gauss_full", "gauss_sqrtprec_full"]), m=dim + r.randint(0, 2),
                 prior_mean=r.choice([0.0, 0.0, 0.7]))
        if r.random() < 0.2:
            t["boxed_lik"] = True
            if r.random() < 0.6:
                ip = [round(v * 6, 3) for v in ip]          # possibly a start value of zero likelihood
        k["scale"] = round(r.choice([0.05, 0.2, 0.5, 0.9]), 3)
        if r.random() < 0.7:
            k["initial_point"] = ip
    elif kind == "LinearRTO":
        t.update(prior=r.choice(["gauss", "gauss_vec", "gmrf", "gauss_full"]), m=dim + r.randint(0, 3),
                 model=r.choice(["matrix", "func"]), prior_mean=r.choice([0.0, 0.4]))
        if t["prior"] == "gmrf" and dim < 2:
            t["dim"] = dim = 2
            ip = ip + [0.25]
        if r.random() < 0.25:
            t.update(likelihoods=2, model="matrix")
        k["maxit"] = r.choice([3, 10, 40])
        k["tol"] = r.choice([1e-4, 1e-8, 1e-12])
        if r.random() < 0.5:
            k["initial_point"] = ip
    elif kind == "RegularizedLinearRTO":
        t.update(prior="reg", constraint=r.choice(["nonnegativity", "box"]), m=dim + r.randint(0, 3),
                 model=r.choice(["matrix", "func"]))
        k["maxit"] = r.choice([5, 30, 100])
        k["stepsize"] = r.choice([0.005, 0.02, "automatic"])
        k["adaptive"] = r.choice([True, False])
        k["abstol"] = r.choice([1e-10, 1e-6])
        if r.random() < 0.5:
            k["initial_point"] = [abs(v) for v in ip]
    elif kind == "UGLA":
        if r.random() < 0.3:
            t["lmrf_vector_location"] = True
        t.update(prior="lmrf", m=dim + r.randint(0, 3), bc=r.choice(["zero", "periodic", "neumann"]),
                 model=r.choice(["matrix", "func"]))
        if dim < 2:
            t["dim"] = 2
        k["maxit"] = r.choice([5, 50])
        k["tol"] = r.choice([1e-4, 1e-9])
        k["beta"] = r.choice([1e-5, 1e-3])
        if r.random() < 0.5:
            k["initial_point"] = [round(r.uniform(-1, 1), 3) for _ in range(t["dim"])]
    elif kind == "Conjugate":
        t.update(form=r.choice(["cov", "prec", "gmrf"]), m=r.randint(2, 6),
                 shape=r.choice([1.0, 2.5]), rate=r.choice([1e-2, 1.0]))
    elif kind == "ConjugateApprox":
        t.update(m=r.randint(2, 6), shape=r.choice([1.0, 2.5]), rate=r.choice([1e-2, 1.0]))
    elif kind == "Direct":
        t.update(family=r.choice(["gauss", "gamma"]))
    return sc


def build_exp_target(ctx, sc):
    kind, rec = sc["kind"], sc["target"]
    if kind in ("MH", "CWMH"):
        return ud_target(ctx, rec, with_grad=False)
    if kind in ("ULA", "MALA", "NUTS"):
        return ud_target(ctx, rec, with_grad=True)
    if kind == "PCN":
        return nonlin_posterior(ctx, rec)
    if kind == "LinearRTO" and rec.get("likelihoods") == 2:
        return multi_lik_posterior(ctx, rec)
    if kind in ("LinearRTO", "RegularizedLinearRTO", "UGLA"):
        return lin_posterior(ctx, rec)
    if kind == "Conjugate":
        return conjugate_target(ctx, rec)
    if kind == "ConjugateApprox":
        return conjugate_approx_target(ctx, rec)
    if kind == "Direct":
        return direct_target(ctx, rec)
    raise ValueError(kind)


def build_exp_sampler(ctx, sc, callback=None, target=None):
    """Fresh experimental sampler for scenario sc.  Returns (sampler, info)."""
    import cuqi.experimental.mcmc as M
    info = {}
    if target is None:
        target, info = build_exp_target(ctx, sc)
    k = dict(sc["knobs"])
    if "initial_point" in k and k["initial_point"] is not None:
        k["initial_point"] = np.array(k["initial_point"], float)
        if k.pop("ip_int", False):
            k["initial_point"] = np.round(3 * k["initial_point"]).astype(int)      # an integer-typed start vector
        if k.pop("ip_f32", False):
            k["initial_point"] = k["initial_point"].astype(np.float32)              # a single-precision start vector
        if k.pop("ip_funvals", False):
            # the start vector is handed over as a CUQIarray of FUNCTION VALUES (what the test problems' exactSolution is)
            from cuqi.array import CUQIarray
            k["initial_point"] = CUQIarray(k["initial_point"], geometry=target.geometry).funvals
        if k.pop("ip_cuqiarray", False):
            from cuqi.array import CUQIarray
            k["initial_point"] = CUQIarray(k["initial_point"], geometry=target.geometry)
    k.pop("ip_cuqiarray", None)
    k.pop("ip_int", None)
    k.pop("ip_f32", None)
    k.pop("ip_funvals", None)
    if isinstance(k.get("scale"), list):
        k["scale"] = np.array(k["scale"], float)
    prop = k.pop("proposal", None)
    if prop == "gauss_aniso" and sc["kind"] == "MH":
        n_ = target.dim
        k["proposal"] = cuqi.distribution.Gaussian(np.zeros(n_), np.linspace(0.5, 2.0, n_))      # symmetric, anisotropic
        info["proposal_Cinv"] = np.diag(1 / np.linspace(0.5, 2.0, n_))
    elif prop == "callable" and sc["kind"] == "CWMH":
        k["proposal"] = lambda location, scale: np.random.normal(location, scale)                 # user-supplied callable
    elif prop == "normal_cond" and sc["kind"] == "CWMH":
        k["proposal"] = cuqi.distribution.Normal(mean=lambda location: location, std=lambda scale: scale, geometry=target.dim)
    cls = getattr(M, sc["kind"])
    s = cls(target, callback=callback, **k)
    info["target"] = target
    return s, info


# --------------------------------------------------------------------------- hierarchical joints (Gibbs)

def _perm(rec, dens):
    """order of the densities in the joint = sweep order of the Gibbs samplers; rec['perm'] permutes it"""
    p = rec.get("perm")
    if not p:
        return dens
    idx = sorted(range(len(dens)), key=lambda i: (p[i % len(p)], i))
    return [dens[i] for i in idx]


def gibbs_joint(rec, ctx=None):
    """2..4 block hierarchical joint, already conditioned on data.  rec: {zseed, n, m, shape}.
    Returns (joint, data dict).  Pure function of the recipe: calling it twice gives a twin.
    With rec['model']=='func' the forward model is a pair of probes (fault-injectable)."""
    rs = np.random.RandomState(rec["zseed"])
    n, m = rec["n"], rec["m"]
    A = rs.randn(m, n)
    yobs = rs.randn(m)
    probes = {}
    if rec.get("model") == "deconv":
        # the forward operator of the shipped 1-D deconvolution test problem (function-based LinearModel); the reference
        # side only knows its dense matrix, assembled column by column from a SEPARATELY built test problem
        def _tp():
            import cuqi.testproblem
            return cuqi.testproblem.Deconvolution1D(dim=n, PSF=rec.get("psf", "gauss"), PSF_param=2.0, PSF_size=min(3, n),
                                                    BC=rec.get("dbc", "periodic")).model
        ref_model = _tp()
        A = np.column_stack([np.asarray(ref_model.forward(e_), float) for e_ in np.eye(n)])
        m = n
        yobs = rs.randn(m)
        mk_model = _tp
    elif rec.get("model") == "func":
        pf = Probe(ctx or core_ctx0(), "forward", lambda x: A @ np.asarray(x, float).reshape(-1))
        pa = Probe(ctx or core_ctx0(), "adjoint", lambda z: A.T @ np.asarray(z, float).reshape(-1))
        probes = {"forward": pf, "adjoint": pa}
        mk_model = lambda: LinearModel(pf, pa, range_geometry=m, domain_geometry=n)
    else:
        mk_model = lambda: LinearModel(A)
    shape = rec.get("shape", "x_s")
    xm = float(rec.get("xmean", 0.0)) * np.ones(n)          # prior mean of the x block (x_s, x_d_s)
    if shape == "x_s":          # x | s-independent prior ; noise precision s
        s = Gamma(1.0, 1e-1, name="s")
        x = Gaussian(xm, 1.0, name="x") if rec.get("xprior", "gauss") == "gauss" else \
            GMRF(xm, 3.0, name="x")
        if rec.get("noise_C"):
            Bn = rs.randn(m, m) * 0.3
            Cn = np.eye(m) + Bn @ Bn.T              # correlated noise with unknown overall precision s
            y = Gaussian(mk_model()(x), cov=lambda s: (1 / s) * Cn, name="y")
        else:
            Cn = None
            y = Gaussian(mk_model()(x), cov=lambda s: 1 / s, name="y")
        J = JointDistribution(*_perm(rec, [y, x, s]))(y=yobs)
        out_extra = {"noise_C": Cn}
    elif shape == "y_x_m":      # three levels of vectors: m ~ N(0, I), x ~ N(B m, 0.5 I), y ~ N(A x, 0.3 I)
        Bm = rs.randn(n, 2)
        mm = Gaussian(np.zeros(2), 1.0, name="m")
        x = Gaussian(LinearModel(Bm)(mm), 0.5, name="x")
        y = Gaussian(mk_model()(x), 0.3, name="y")
        J = JointDistribution(*_perm(rec, [y, x, mm]))(y=yobs)
        return J, {"A": A, "y": yobs, "Bm": Bm, "probes": probes}
    elif shape == "x_d_s":      # prior precision d, noise precision s
        d = Gamma(1.0, 1e-1, name="d")
        s = Gamma(1.0, 1e-1, name="s")
        if rec.get("xprior", "gauss") == "gmrf":
            x = GMRF(xm, prec=lambda d: d, bc_type=rec.get("bc", "zero"), name="x")
        else:
            x = Gaussian(xm, prec=lambda d: d, name="x")
        y = Gaussian(mk_model()(x), cov=lambda s: 1 / s, name="y")
        J = JointDistribution(*_perm(rec, [y, x, d, s]))(y=yobs)
    elif shape == "x_d_lmrf":   # LMRF prior with scale 1/d, fixed noise
        d = Gamma(1.0, 1e-1, name="d")
        loc_ = 0
        if rec.get("lmrf_loc"):
            loc_ = np.array([0.6 * (-1) ** i for i in range(n)]) if n % 2 == 0 else np.array([0.6, -0.3, -0.3] + [0.0] * (n - 3))
        x = LMRF(loc_, scale=lambda d: 1 / d, geometry=n, name="x")     # (a location vector whose entries SUM to zero)
        y = Gaussian(mk_model()(x), 0.3, name="y")
        J = JointDistribution(*_perm(rec, [y, x, d]))(y=yobs)
        if rec.get("lmrf_loc"):
            return J, {"A": A, "y": yobs, "probes": probes, "lmrf_loc": np.asarray(loc_, float)}
    elif shape == "x_d_reg":    # implicit nonnegativity-regularised Gaussian prior with precision d (Regularized-Gaussian/Gamma pair)
        d = Gamma(1.0, 1e-1, name="d")
        x = RegularizedGaussian(np.zeros(n), prec=lambda d: d, constraint="nonnegativity", name="x")
        y = Gaussian(mk_model()(x), 0.3, name="y")
        J = JointDistribution(*_perm(rec, [y, x, d]))(y=yobs)
    elif shape == "x_s_w":      # as x_s plus an independent block w (its conditional is a plain distribution: Direct)
        s = Gamma(1.0, 1e-1, name="s")
        x = Gaussian(np.zeros(n), 1.0, name="x")
        w = Gaussian(np.zeros(2), 0.7, name="w")
        y = Gaussian(mk_model()(x), cov=lambda s: 1 / s, name="y")
        J = JointDistribution(*_perm(rec, [y, x, s, w]))(y=yobs)
    elif shape == "x_d_a":      # three levels: the Gamma hyper-prior of d depends on another sampled block a
        a = Gamma(2.0, 1.0, name="a")
        d = Gamma(1.0, rate=lambda a: a, name="d")
        x = Gaussian(np.zeros(n), prec=lambda d: d, name="x")
        y = Gaussian(mk_model()(x), 0.3, name="y")
        J = JointDistribution(*_perm(rec, [y, x, d, a]))(y=yobs)
    elif shape == "x_z_s":      # two vector blocks entering one likelihood + noise precision
        s = Gamma(1.0, 1e-1, name="s")
        x = Gaussian(np.zeros(n), 1.0, name="x")
        z = Gaussian(np.zeros(n), 2.0, name="z")
        B = rs.randn(m, n)
        y = Gaussian(lambda x, z: A @ x + B @ z, cov=lambda s: 1 / s, name="y", geometry=m)
        J = JointDistribution(*_perm(rec, [y, x, z, s]))(y=yobs)
    elif shape == "x_s_step":   # as x_s, the unknown on a step-expansion geometry (n heights -> 3n nodes seen by the model)
        from cuqi.geometry import StepExpansion
        A3 = rs.randn(m, 3 * n)
        s = Gamma(1.0, 1e-1, name="s")
        x = Gaussian(np.zeros(n), 1.0, geometry=StepExpansion(np.linspace(0, 1, 3 * n), n_steps=n), name="x")
        Mx = LinearModel(A3, domain_geometry=StepExpansion(np.linspace(0, 1, 3 * n), n_steps=n), range_geometry=m)
        y = Gaussian(Mx(x), cov=lambda s: 1 / s, name="y")
        J = JointDistribution(*_perm(rec, [y, x, s]))(y=yobs)
        return J, {"A": A3 @ np.kron(np.eye(n), np.ones((3, 1))), "y": yobs, "probes": probes}
    elif shape == "x_l1_l2":    # two data sets with their own noise precisions entering one x-block
        l1 = Gamma(1.0, 1e-1, name="l1")
        l2 = Gamma(2.0, 3e-1, name="l2")
        x = Gaussian(np.zeros(n), 1.0, name="x")
        m2 = m + rec["zseed"] % 2
        A2 = rs.randn(m2, n)
        y2obs = rs.randn(m2)
        y1 = Gaussian(mk_model()(x), cov=lambda l1: 1 / l1, name="y1")
        y2 = Gaussian(LinearModel(A2)(x), cov=lambda l2: 1 / l2, name="y2")
        order = _perm(rec, [y1, y2, x, l1, l2])
        J = JointDistribution(*order)(y1=yobs, y2=y2obs)
        return J, {"A": A, "y": yobs, "A2": A2, "y2": y2obs, "probes": probes,
                   "lik_order": [d_.name for d_ in order if d_.name in ("y1", "y2")]}
    else:
        raise ValueError(shape)
    out = {"A": A, "y": yobs, "probes": probes}
    if shape == "x_z_s":
        out["B"] = B
    if shape == "x_s":
        out.update(out_extra)
    return J, out


# --------------------------------------------------------------------------- Gibbs strategies

GIBBS_SHAPES = {
    # shape -> block -> admissible sampler kinds (experimental interface)
    "x_s": {"x": ["LinearRTO", "MH", "CWMH", "MALA", "ULA", "NUTS", "PCN"], "s": ["Conjugate", "MH"]},
    "x_d_s": {"x": ["LinearRTO", "MH", "CWMH", "NUTS"], "d": ["Conjugate", "MH"], "s": ["Conjugate", "MH"]},
    "x_d_lmrf": {"x": ["UGLA", "MH", "CWMH"], "d": ["ConjugateApprox", "MH"]},
    "x_z_s": {"x": ["MH", "CWMH"], "z": ["MH", "CWMH"], "s": ["Conjugate", "MH"]},
    "x_d_a": {"x": ["LinearRTO", "MH"], "d": ["Conjugate", "Conjugate", "MH"], "a": ["MH"]},
    "x_s_w": {"x": ["LinearRTO", "MH"], "s": ["Conjugate", "MH"], "w": ["Direct", "Direct", "MH"]},
    "x_d_reg": {"x": ["RegularizedLinearRTO"], "d": ["Conjugate"]},
    "x_s_step": {"x": ["LinearRTO", "MH", "CWMH"], "s": ["Conjugate", "MH"]},
    "y_x_m": {"x": ["LinearRTO", "LinearRTO", "MH"], "m": ["LinearRTO", "LinearRTO", "MH"]},
    "x_l1_l2": {"x": ["LinearRTO", "LinearRTO", "MH"], "l1": ["Conjugate", "MH"], "l2": ["Conjugate", "Conjugate", "MH"]},
}
LEGACY_GIBBS_SHAPES = {
    "x_s": {"x": ["LinearRTO", "CWMH", "MH"], "s": ["Conjugate", "MH"]},
    "x_d_s": {"x": ["LinearRTO", "CWMH"], "d": ["Conjugate"], "s": ["Conjugate"]},
    "x_d_lmrf": {"x": ["UGLA", "CWMH"], "d": ["ConjugateApprox"]},
}


def gen_gibbs_scenario(r, legacy=False):
    shapes = LEGACY_GIBBS_SHAPES if legacy else GIBBS_SHAPES
    shape = r.choice(sorted(shapes))
    n = r.randint(2, 4)
    rec = {"zseed": r.randrange(1, 10 ** 6), "n": n, "m": n + r.randint(0, 2), "shape": shape,
           "xprior": r.choice(["gauss", "gmrf"])}
    if shape in ("x_s", "x_d_s") and r.random() < 0.4:
        rec["xmean"] = r.choice([0.4, -0.7, 1.5])          # non-zero prior mean
    if legacy and shape == "x_s" and r.random() < 0.4:
        rec["noise_C"] = True                               # correlated noise with unknown overall precision (legacy Conjugate)
    if shape == "x_d_s" and rec["xprior"] == "gmrf" and r.random() < 0.4:
        rec["bc"] = "neumann"          # improper field: the structure matrix has rank n-1
    if r.random() < 0.5:
        rec["perm"] = [r.randrange(10) for _ in range(4)]      # sweep order differs from the textbook order
    strat = {}
    for b in sorted(shapes[shape]):
        kind = r.choice(shapes[shape][b])
        kn = {}
        if kind in ("MH", "CWMH"):
            kn["scale"] = r.choice([0.1, 0.4, 0.9])
        elif kind in ("MALA", "ULA"):
            kn["scale"] = r.choice([0.01, 0.05])
        elif kind == "NUTS":
            kn["max_depth"] = r.randint(1, 3)
            if r.random() < 0.5:
                kn["step_size"] = r.choice([0.05, 0.2])
        elif kind == "PCN":
            kn["scale"] = r.choice([0.1, 0.4])
        elif kind in ("LinearRTO", "UGLA"):
            kn["maxit"] = r.choice([5, 30])
        elif kind == "RegularizedLinearRTO":
            kn["maxit"] = r.choice([5, 30])
            kn["stepsize"] = r.choice([0.005, 0.02]) if legacy else r.choice([0.005, 0.02, "automatic"])
        if kind in ("MH", "CWMH", "MALA", "ULA", "NUTS", "PCN") and b in ("s", "d", "a", "l1", "l2"):
            kn["initial_point"] = [round(r.uniform(0.5, 2.0), 3)]
        strat[b] = {"kind": kind, "knobs": kn}
    if rec.get("noise_C"):
        strat["s"] = {"kind": "Conjugate", "knobs": {}}     # (a random-walk proposal of a negative precision makes the matrix
                                                            #  covariance indefinite and the Gaussian constructor raise)
    steps = {b: r.choice([1, 1, 2, 3]) for b in strat} if not legacy else None
    if steps and r.random() < 0.2:
        steps.pop(sorted(steps)[0])            # a step count may be omitted for a block (defaults to 1)
    if shape in ("x_s", "x_d_s", "x_d_lmrf", "x_d_a", "x_s_w", "x_d_reg") and r.random() < 0.15:
        rec.update(model="deconv", m=n, psf=r.choice(["gauss", "moffat", "defocus"]),
                   dbc=r.choice(["periodic", "zero", "mirror", "reflect", "nearest"]))
    if rec["xprior"] == "gmrf" and shape == "x_s" and strat["x"]["kind"] == "PCN":
        rec["xprior"] = "gauss"
    if shape == "x_d_s" and strat["x"]["kind"] == "NUTS":
        rec["xprior"] = "gmrf"       # Gaussian(prec=...) offers no gradient
    return {"joint": rec, "strategy": strat, "steps": steps, "scalar_ip": r.random() < 0.3}


def build_hybrid_gibbs(sc, callback_factory=None):
    import cuqi.experimental.mcmc as M
    J, data = gibbs_joint(sc["joint"])
    strat = {}
    for b, st in sc["strategy"].items():
        kn = dict(st["knobs"])
        if "initial_point" in kn:
            kn["initial_point"] = np.array(kn["initial_point"], float)
            if False and sc.get("scalar_ip") and kn["initial_point"].size == 1 and st["kind"] in ("MH", "PCN"):
                kn["initial_point"] = float(kn["initial_point"][0])       # a plain number, as in the library's own tests
        strat[b] = getattr(M, st["kind"])(**kn)
    g = M.HybridGibbs(J, strat, dict(sc["steps"]) if sc.get("steps") else None)
    return g, J


def build_legacy_gibbs(sc):
    import cuqi.sampler as LS
    J, data = gibbs_joint(sc["joint"])
    strat = {}
    for b, st in sc["strategy"].items():
        cls = getattr(LS, st["kind"])
        kn = dict(st["knobs"])
        kn.pop("initial_point", None)
        if kn:
            strat[b] = (lambda cls, kn: (lambda target: cls(target, **kn)))(cls, kn)
        else:
            strat[b] = cls
    return LS.Gibbs(J, strat), J


# --------------------------------------------------------------------------- legacy samplers

LEGACY_KINDS = ["MH", "CWMH", "pCN", "ULA", "MALA", "NUTS", "LinearRTO", "RegularizedLinearRTO", "UGLA"]


def gen_legacy_scenario(r, kind=None):
    kind = kind or r.choice(LEGACY_KINDS)
    exp_kind = {"pCN": "PCN"}.get(kind, kind)
    sc = gen_exp_scenario(r, exp_kind)
    sc["kind"] = kind
    k = sc["knobs"]
    k.pop("ip_cuqiarray", None)
    if "initial_point" in k:
        k["x0"] = k.pop("initial_point")
    if kind == "pCN" and r.random() < 0.3:
        sc["target"]["tuple_target"] = True       # legacy pCN accepts (likelihood, prior)
    if kind in ("MH", "CWMH") and r.random() < 0.15:
        sc["target"]["lambda_target"] = True
    if kind == "NUTS":
        ss = k.pop("step_size", None)
        k.pop("opt_acc_rate", None)
        k["adapt_step_size"] = r.choice([True, False, False]) if ss is None else ss
    if kind == "RegularizedLinearRTO":
        k.pop("maxit", None)        # legacy constructor hard-codes maxit=100
    if kind == "LinearRTO" and sc["target"].get("prior") == "gauss" and not sc["target"].get("likelihoods") and r.random() < 0.7:
        sc["target"]["tuple_form"] = True
        sc["target"]["model"] = "matrix"
    if kind == "CWMH" and isinstance(k.get("scale"), list):
        k["scale"] = k["scale"]
    return sc


def build_legacy_sampler(ctx, sc, callback=None):
    import cuqi.sampler as LS
    kind = sc["kind"]
    exp_kind = {"pCN": "PCN"}.get(kind, kind)
    if kind == "LinearRTO" and sc["target"].get("tuple_form"):
        target, info = rto_tuple_target(sc["target"]), {}
    else:
        target, info = build_exp_target(ctx, dict(sc, kind=exp_kind))
    if kind == "pCN" and sc["target"].get("tuple_target"):
        target = (target.likelihood, target.prior)
    k = dict(sc["knobs"])
    prop = k.pop("proposal", None)
    if kind == "MH" and prop == "gauss_aniso":
        n_ = sc["target"]["dim"]
        k["proposal"] = cuqi.distribution.Gaussian(np.zeros(n_), np.linspace(0.5, 2.0, n_))
        info["proposal_Cinv"] = np.diag(1 / np.linspace(0.5, 2.0, n_))
    elif kind == "CWMH" and prop == "callable":
        k["proposal"] = lambda x_t, sigma: np.random.normal(x_t, sigma)
    elif kind == "CWMH" and prop == "normal_cond":
        k["proposal"] = cuqi.distribution.Normal(mean=None, std=None, geometry=sc["target"]["dim"])
    if sc["target"].get("lambda_target") and kind in ("MH", "CWMH") and not str(sc["target"].get("kind")).startswith("post"):
        # the stateless interface also accepts a bare log-density function plus dim
        probe = info["logd"]
        target = (lambda x: probe(x))
        k["dim"] = sc["target"]["dim"]
    ip_int = k.pop("ip_int", False)
    k.pop("ip_f32", None)
    if k.get("x0") is not None:
        k["x0"] = np.array(k["x0"]) if all(isinstance(v, int) for v in k["x0"]) else np.array(k["x0"], float)
        if ip_int:
            k["x0"] = np.round(3 * k["x0"]).astype(int)                           # an integer-typed start vector
    else:
        k.pop("x0", None)
    if isinstance(k.get("scale"), list):
        k["scale"] = np.array(k["scale"], float)
    s = getattr(LS, kind)(target, callback=callback, **k)
    info["target"] = target
    return s, info
