"""Entry point behind /verif/bin/check.  Never run with `python -m` (double import)."""
import os
import sys

_HERE = os.path.dirname(os.path.abspath(__file__))
VERIF = os.path.dirname(_HERE)
# script dir (/verif/sim) must not be importable as top-level; /verif must be
sys.path[:] = [p for p in sys.path if os.path.abspath(p or ".") != _HERE]
if VERIF not in sys.path:
    sys.path.insert(0, VERIF)

for _v in ("OPENBLAS_NUM_THREADS", "OMP_NUM_THREADS", "MKL_NUM_THREADS"):
    os.environ.setdefault(_v, "1")

import argparse
import json
import time
import warnings

warnings.filterwarnings("ignore")

import numpy as np   # noqa: E402
import cuqi          # noqa: E402  (the editable install points at /repo; PYTHONPATH overrides)

from sim import core, runner     # noqa: E402
from engines import REGISTRY, PLAN   # noqa: E402


def main(argv=None):
    ap = argparse.ArgumentParser()
    ap.add_argument("prop")
    ap.add_argument("--tier", default=os.environ.get("VERIF_TIER", "quick"))
    ap.add_argument("--replay")
    ap.add_argument("--engine")
    ap.add_argument("--runs", type=int)
    ap.add_argument("--workers", type=int, default=int(os.environ.get("VERIF_WORKERS", "16")))
    ap.add_argument("--budget", type=float, help="wall budget in seconds for the batch")
    ap.add_argument("--fingerprints", help="comma list of run indices: print their fingerprints and exit")
    ap.add_argument("--selftest-determinism", type=int, dest="det_k")
    ap.add_argument("--no-evidence", action="store_true")
    ap.add_argument("--no-minimise", action="store_true")
    ap.add_argument("--first-index", type=int, default=0)
    ap.add_argument("--list-sigs", action="store_true")
    ap.add_argument("--show", type=int, help="print the generated case of run index N and exit")
    a = ap.parse_args(argv)

    master = int(os.environ.get("VERIF_SEED", "0") or 0)
    tier = a.tier if a.tier in ("quick", "thorough") else "quick"
    engines = {name: cls() for name, cls in REGISTRY.items()}

    if a.replay:
        return runner.replay(engines, a.replay)

    prop = a.prop
    if prop not in PLAN:
        print("HARNESS-ERROR unknown or not-claimed property %s" % prop)
        return 2
    plan = [p for p in PLAN[prop] if a.engine in (None, p["engine"])]

    if a.show is not None:
        e = engines[plan[0]["engine"]]
        print(json.dumps(runner.gen_case(e, master, a.show, tier), indent=1))
        return 0

    if a.fingerprints:
        e = engines[plan[0]["engine"]]
        idx = [int(x) for x in a.fingerprints.split(",") if x != ""]
        print("FINGERPRINTS " + json.dumps(runner.fingerprints_inprocess(e, master, tier, idx)))
        return 0

    t0 = time.time()
    findings = runner.load_findings()
    agg = {"evaluations": 0, "faults": {}, "reach": {}, "counts": {}, "events": 0,
           "fps": set(), "samples": [], "errors": [], "timeouts": 0, "planned": 0}
    batch_fp = {}              # (engine, run index) -> fingerprint observed in the 16-worker batch
    new_violations = []        # (engine, result, violation)
    known_hit = {}             # finding id -> count
    per_engine = {}

    for p in plan:
        e = engines[p["engine"]]
        n = a.runs if a.runs is not None else p[tier]["runs"]
        budget = a.budget if a.budget is not None else p[tier]["budget_s"]
        te = time.time()
        results = runner.run_batch(e, master, tier, n, a.workers, budget, a.first_index)
        if os.environ.get("VERIF_SELFTEST_FLAKE") == "%s:%s" % (e.name, tier):
            # self-test of the re-execution gate below: one batch result is given an alarm its run does not produce
            for r in results:
                if not r.get("err") and r.get("i") == a.first_index + 60:
                    r["violations"] = list(r["violations"]) + [{"property": prop, "oracle": "selftest_flake", "detail": {},
                                                                 "sig": {"property": prop, "oracle": "selftest_flake"}}]
                    r["fp"] = "flake"
        agg["planned"] += n
        st = {"planned": n, "executed": 0, "wall_s": 0.0}
        for r in results:
            if r.get("err"):
                if r.get("timeout"):
                    agg["timeouts"] += 1
                agg["errors"].append({"engine": e.name, "i": r.get("i"), "err": r["err"][:1500]})
                continue
            st["executed"] += 1
            batch_fp[(e.name, r.get("i"))] = r.get("fp")
            agg["evaluations"] += 1
            agg["events"] += r["n_events"]
            for k in ("faults", "reach", "counts"):
                for kk, vv in r[k].items():
                    agg[k][kk] = agg[k].get(kk, 0) + vv
            if r["nontrivial"]:
                agg["fps"].add(r["fp"])
            if "case" in r and len(agg["samples"]) < 3 and not r["violations"]:
                agg["samples"].append(_sample_view(r["case"]))
            for v in r["violations"]:
                if v["property"] != prop:
                    continue
                f = runner.match_finding(v, findings)
                if f is not None:
                    known_hit[f["id"]] = known_hit.get(f["id"], 0) + 1
                else:
                    new_violations.append((e, r, v))
        st["wall_s"] = round(time.time() - te, 2)
        per_engine[e.name] = st

    # ---- determinism self-test (every invocation; K=8 quick, more in thorough)
    det = {"k": 0, "mismatches": []}
    k = a.det_k if a.det_k is not None else (8 if tier == "quick" else 48)
    if k and not agg["errors"]:
        for p in plan:
            e = engines[p["engine"]]
            idx = list(range(a.first_index, a.first_index + min(k, p[tier]["runs"] if a.runs is None else a.runs)))
            first = {}
            # fingerprints from the 16-worker batch are not kept per index; recompute twice:
            one = runner.fingerprints_inprocess(e, master, tier, idx)                  # 1 worker, this process tree
            two = runner.fingerprints_fresh_interpreter(prop, e, master, tier, idx,     # fresh interpreter,
                                                        hashseed=12345)                 # other PYTHONHASHSEED
            odd = [i for i in idx if one.get(str(i)) != two.get(str(i))]
            if odd:
                # a difference must persist in a second fresh interpreter (a leak through hashing or import order does; the
                # memory-layout-dependent last-bit noise of section 10.4 does not)
                again = runner.fingerprints_fresh_interpreter(prop, e, master, tier, odd, hashseed=12345)
                for i in odd:
                    if again.get(str(i)) == one.get(str(i)):
                        two[str(i)] = again.get(str(i))
                        det.setdefault("retried", []).append({"engine": e.name, "i": i})
            for i in idx:
                three = batch_fp.get((e.name, i), one.get(str(i)))      # the same run as executed in the parallel batch
                if one.get(str(i)) != two.get(str(i)) or one.get(str(i)) is None or three != one.get(str(i)):
                    det["mismatches"].append({"engine": e.name, "i": i, "a": one.get(str(i)), "b": two.get(str(i)), "batch": three})
            det["k"] += len(idx)

    # ---- verdicts
    rc = 0
    # ---- a violation counts only if re-executing its run in a fresh process reproduces it ("one seed is one exactly
    # repeatable execution"): per signature, up to three of the runs that showed it are executed again; a signature
    # none of them shows again cannot be delivered with a replay file, is counted as an unreproduced alarm (a leak of
    # nondeterminism in harness or library, bounded below) and is not reported as a violation.  Whatever the
    # re-execution shows instead is judged like any other result (known findings are matched on it).
    unreproduced = []
    if new_violations:
        by_sig = {}
        for e, r, v in new_violations:
            by_sig.setdefault(json.dumps(v["sig"], sort_keys=True), []).append((e, r, v))
        confirmed, rerun_cache = [], {}
        n_ok = 0
        for key, lst in by_sig.items():
            ok = n_ok >= 5              # the verdict is settled; further signatures are only listed
            for e, r, v in ([] if ok else lst[:3]):
                ck = (e.name, r.get("i"))
                if ck not in rerun_cache:
                    case = r.get("case") or runner.gen_case(e, master, r["i"], tier)
                    rerun_cache[ck] = runner.run_case_forked(e, case)
                again = rerun_cache[ck]
                if any(json.dumps(w["sig"], sort_keys=True) == key for w in again.get("violations", [])):
                    ok = True
                    break
            if ok:
                n_ok += 1
                confirmed.extend(lst)
            else:
                unreproduced.append({"sig": json.loads(key), "runs": [[e.name, r.get("i")] for e, r, v in lst[:5]], "n": len(lst)})
                print("UNREPRODUCED-ALARM (not a violation: re-executing the run does not show it) %s runs=%s" % (
                    key, [[e.name, r.get("i")] for e, r, v in lst[:5]]))
        for (en, i), again in rerun_cache.items():
            if again.get("fp") != batch_fp.get((en, i)):
                for w in again.get("violations", []):
                    if w["property"] != prop:
                        continue
                    f = runner.match_finding(w, findings)
                    if f is not None:
                        known_hit[f["id"]] = known_hit.get(f["id"], 0) + 1
                    elif not any(json.dumps(w["sig"], sort_keys=True) == json.dumps(v["sig"], sort_keys=True) for _, _, v in confirmed):
                        confirmed.append((engines[en], dict(again, i=i), w))
        new_violations = confirmed
    agg["unreproduced"] = unreproduced

    if a.list_sigs:
        cnt = {}
        for e, r, v in new_violations:
            key = json.dumps(v["sig"], sort_keys=True)
            cnt[key] = cnt.get(key, 0) + 1
        for key, n in sorted(cnt.items(), key=lambda kv: -kv[1]):
            print("SIG %5d %s" % (n, key))
    for f in findings:
        if f.get("status") == "open" and f["id"] in known_hit:
            print("KNOWN-FINDING: property=%s %s [%s, hit %d times in this run]" %
                  (prop, f["text"], f["id"], known_hit[f["id"]]))

    replay_paths = []
    if new_violations:
        rc = 1
        seen = set()
        for e, r, v in new_violations:
            key = json.dumps(v["sig"], sort_keys=True)
            if key in seen:
                continue
            seen.add(key)
            if len(seen) > (0 if a.list_sigs else 4):
                break
            case = r.get("case") or runner.gen_case(e, master, r["i"], tier)
            if a.no_minimise:
                mini, tries = case, 0
            else:
                mini, tries = runner.minimise(e, case, v["sig"], budget=120 if tier == "quick" else 250)
            res_min = runner.run_case_forked(e, mini, keep_events=60)
            path = runner.write_replay(prop, e, case, mini, v["sig"], res_min, tries)
            replay_paths.append(path)
            print("violation: %s detail=%s" % (key, json.dumps(v["detail"])[:600]))
            print("VIOLATION property=%s replay=%s" % (prop, path))

    harness_err = None
    if agg["errors"]:
        harness_err = "%d runs failed in the harness (timeouts=%d); first: %s" % (
            len(agg["errors"]), agg["timeouts"], agg["errors"][0])
    elif det["mismatches"]:
        harness_err = "nondeterminism leak: %s" % det["mismatches"][:3]
    elif agg["evaluations"] == 0:
        harness_err = "no run executed"
    elif sum(u["n"] for u in agg["unreproduced"]) > max(2, agg["evaluations"] // 2000):
        harness_err = "too many alarms that do not reproduce on re-execution: %s" % agg["unreproduced"][:3]
    else:
        und = agg["counts"].get("undecided", 0)
        dec = agg["counts"].get("decisions", 0)
        if und and und > 0.02 * (dec + und):
            harness_err = "undecided rate %d/%d above 2%%" % (und, dec + und)
    if harness_err:
        print("HARNESS-ERROR " + harness_err)
        if rc == 0:
            rc = 2

    wall = time.time() - t0
    if not a.no_evidence:
        _write_evidence(prop, plan, engines, tier, master, agg, per_engine, det, known_hit,
                        len(new_violations), wall, harness_err)
    print("%s tier=%s seed=%d runs=%d/%d distinct_nontrivial=%d events=%d faults=%d wall=%.1fs rc=%d" % (
        prop, tier, master, agg["evaluations"], agg["planned"], len(agg["fps"]), agg["events"],
        sum(agg["faults"].values()), wall, rc))
    return rc


def _sample_view(case):
    c = dict(case)
    ops = c.get("ops")
    if isinstance(ops, list) and len(ops) > 14:
        c["ops"] = ops[:14] + ["... %d more" % (len(ops) - 14)]
    return c


def _write_evidence(prop, plan, engines, tier, master, agg, per_engine, det, known_hit, n_viol, wall, herr):
    e0 = engines[plan[0]["engine"]]
    level = plan[0].get("level", "exploration")
    cov = {
        "evaluations": agg["evaluations"],
        "distinct_nontrivial": len(agg["fps"]),
        "rule": " | ".join(engines[p["engine"]].rule for p in plan) +
                " || distinct = distinct SHA-256 fingerprints of the full event log; non-trivial = the run "
                "fired at least one fault or contained at least one non-trivial interleaving (engine sets the flag).",
        "samples": agg["samples"] or ["(no clean run to show)"],
        "runs_planned": agg["planned"],
        "runs_per_hour": int(agg["evaluations"] / max(wall, 1e-9) * 3600),
        "seeds": "run i uses SHA256(engine|VERIF_SEED|i)[:8], i=0..%d, VERIF_SEED=%d" % (agg["planned"] - 1, master),
        "sim_events": agg["events"],
        "sim_transitions": agg["counts"].get("transitions", 0),
        "simulated_time": "no clock enters any claimed property; simulated extent is reported as transitions and events",
        "fault_counts": dict(sorted(agg["faults"].items())),
        "reach_probes": dict(sorted(agg["reach"].items())),
        "counters": dict(sorted(agg["counts"].items())),
        "undecided": agg["counts"].get("undecided", 0),
        "per_engine": per_engine,
        "real_components": sorted(set(sum([engines[p["engine"]].real for p in plan], []))),
        "stub_components": sorted(set(sum([engines[p["engine"]].stub for p in plan], []))),
        "determinism_selftest": {"seeds_checked": det["k"], "mismatches": len(det["mismatches"]),
                                 "differences_gone_in_a_second_fresh_interpreter": det.get("retried", []),
                                 "method": "each seed: fingerprint from the 16-worker batch vs re-run single-worker in a forked "
                                           "child vs re-run in a fresh interpreter under PYTHONHASHSEED=12345; all three must agree"},
        "known_findings_hit": known_hit,
        "unreproduced_alarms": agg.get("unreproduced", []),
        "harness_error": herr,
        "cuqi_path": os.path.dirname(cuqi.__file__),
        "exhaustive": False,
    }
    ev = {
        "property_id": prop, "tier": tier, "seed": master, "level": level, "coverage": cov,
        "assumptions": sum([engines[p["engine"]].assumptions for p in plan], []),
        "wall_s": round(wall, 2), "violations": n_viol,
    }
    os.makedirs(os.path.join(VERIF, "evidence"), exist_ok=True)
    tmp = os.path.join(VERIF, "evidence", prop + ".json.tmp")
    with open(tmp, "w") as f:
        json.dump(core.jsonable(ev), f, indent=1, sort_keys=True)
    os.replace(tmp, os.path.join(VERIF, "evidence", prop + ".json"))


if __name__ == "__main__":
    sys.exit(main())
