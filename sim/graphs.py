"""Model-graph zoo for the objhist engine (C11 / C01).

`build(rec, hook=None)` returns a dict with the joint, the ordered variable names, one admissible
value per variable, and the forward model objects.  It is a pure function of the recipe, so calling
it again yields a pristine *twin*.  Hyper-parameter callables are created through `named_fn`, so
that they carry the real parameter names CUQIpy inspects, and can be routed through a hook
(fault injection / call logging).
"""
import numpy as np
from cuqi.distribution import (Gaussian, GMRF, LMRF, CMRF, Gamma, Laplace, Lognormal, Uniform,
                               JointDistribution, Beta)
from cuqi.implicitprior import RegularizedGaussian
from cuqi.model import LinearModel, Model


def named_fn(arg, f, hook=None, tag=None):
    """A one-argument function whose parameter is literally called `arg` (CUQIpy matches hyper-parameter
    callables to variables by parameter name)."""
    call = (lambda v: hook(tag, f, v)) if hook is not None else f
    if arg == "s":
        def fn(s): return call(s)
    elif arg == "d":
        def fn(d): return call(d)
    elif arg == "b":
        def fn(b): return call(b)
    elif arg == "m":
        def fn(m): return call(m)
    elif arg == "x":
        def fn(x): return call(x)
    else:
        raise ValueError(arg)
    return fn


GRAPHS = ["lin_s", "lin_d_s", "gmrf_d_s", "lmrf_d", "two_lik", "nonlin", "xz_s", "laplace_b", "mean_m", "cmrf_d",
          "lognormal", "lognormal_cov_s", "lin_sqrtprecF", "reg_d", "lin_geom", "sigdep_x", "direct_param", "cov_sd", "selfnamed", "cov_sdt", "lin_step", "kl_nonlin", "gamma_mv", "heat_pde", "userdef_x", "mapped_x", "mrf2d", "two_lik_shared"]   # ("reg_s" is buildable but RegularizedGaussian has no log-density: not a C01/C11 graph)


def _lg(r, cov):
    """log N(r; 0, cov*I) for a scalar variance, written out in numpy (reference, independent of the library)."""
    r = np.asarray(r, float).ravel()
    return float(-0.5 * r.size * np.log(2 * np.pi * cov) - 0.5 * (r @ r) / cov)


def _lgam(x, a, b):
    """log Gamma(x; shape a, rate b)."""
    from scipy.special import gammaln
    return float(a * np.log(b) - gammaln(a) + (a - 1) * np.log(x) - b * x)


def build(rec, hook=None):
    g, n, m, z = rec["graph"], rec["n"], rec["m"], rec["zseed"]
    rs = np.random.RandomState(z)
    A = rs.randn(m, n)
    ydata = rs.randn(m)
    xval = rs.randn(n) * 0.7
    pos = lambda: float(abs(rs.randn()) + 0.5)
    inv = lambda arg, tag: named_fn(arg, lambda v: 1 / v, hook, tag)
    idt = lambda arg, tag: named_fn(arg, lambda v: v, hook, tag)
    out = {"models": {}}
    if g == "lin_s":
        s = Gamma(1.0, 0.1, name="s")
        x = Gaussian(np.zeros(n), 0.8, name="x")
        M = LinearModel(A)
        y = Gaussian(M(x), cov=inv("s", "y.cov"), name="y")
        dens = [y, x, s]
        vals = {"y": ydata, "x": xval, "s": pos()}
        out["models"]["A"] = M
    elif g == "lin_d_s":
        d = Gamma(1.0, 0.1, name="d")
        s = Gamma(2.0, 0.5, name="s")
        x = Gaussian(np.zeros(n), prec=idt("d", "x.prec"), name="x")
        M = LinearModel(A)
        y = Gaussian(M(x), cov=inv("s", "y.cov"), name="y")
        dens = [y, x, d, s]
        vals = {"y": ydata, "x": xval, "d": pos(), "s": pos()}
        out["models"]["A"] = M
    elif g == "gmrf_d_s":
        d = Gamma(1.0, 0.1, name="d")
        s = Gamma(2.0, 0.5, name="s")
        x = GMRF(np.zeros(n), prec=idt("d", "x.prec"), bc_type=rec.get("bc", "zero"), name="x")
        M = LinearModel(A)
        y = Gaussian(M(x), prec=idt("s", "y.prec"), name="y")
        dens = [y, x, d, s]
        vals = {"y": ydata, "x": xval, "d": pos(), "s": pos()}
        out["models"]["A"] = M
    elif g == "lmrf_d":
        d = Gamma(1.0, 0.1, name="d")
        x = LMRF(0, scale=inv("d", "x.scale"), geometry=n, name="x")
        M = LinearModel(A)
        y = Gaussian(M(x), 0.3, name="y")
        dens = [y, x, d]
        vals = {"y": ydata, "x": xval, "d": pos()}
        out["models"]["A"] = M
    elif g == "cmrf_d":
        d = Gamma(1.0, 0.1, name="d")
        x = CMRF(0, scale=inv("d", "x.scale"), geometry=n, name="x")
        M = LinearModel(A)
        y = Gaussian(M(x), 0.3, name="y")
        dens = [y, x, d]
        vals = {"y": ydata, "x": xval, "d": pos()}
        out["models"]["A"] = M
    elif g == "two_lik":
        s = Gamma(1.0, 0.1, name="s")
        x = Gaussian(np.zeros(n), 0.8, name="x")
        A2 = rs.randn(m, n)
        M1, M2 = LinearModel(A), LinearModel(A2)
        y1 = Gaussian(M1(x), 0.4, name="y1")
        y2 = Gaussian(M2(x), cov=inv("s", "y2.cov"), name="y2")
        dens = [y1, y2, x, s]
        vals = {"y1": ydata, "y2": rs.randn(m), "x": xval, "s": pos()}
        out["models"].update(A=M1, A2=M2)
    elif g == "nonlin":
        x = Gaussian(0.3 * np.ones(n), np.linspace(0.5, 1.5, n), name="x")
        s = Gamma(1.0, 0.1, name="s")
        M = Model(lambda x: np.tanh(A @ x), range_geometry=m, domain_geometry=n,
                  jacobian=lambda x: (1 - np.tanh(A @ x) ** 2)[:, None] * A)
        y = Gaussian(M(x), cov=inv("s", "y.cov"), name="y")
        dens = [y, x, s]
        vals = {"y": ydata, "x": xval, "s": pos()}
        out["models"]["A"] = M
    elif g == "xz_s":
        s = Gamma(1.0, 0.1, name="s")
        x = Gaussian(np.zeros(n), 1.0, name="x")
        zz = Gaussian(np.ones(n), 2.0, name="z")
        B = rs.randn(m, n)
        y = Gaussian(lambda x, z: A @ x + B @ z, cov=inv("s", "y.cov"), name="y", geometry=m)
        dens = [y, x, zz, s]
        vals = {"y": ydata, "x": xval, "z": rs.randn(n), "s": pos()}
    elif g == "laplace_b":
        b = Gamma(2.0, 1.0, name="b")
        x = Laplace(np.zeros(n), idt("b", "x.scale"), name="x")
        M = LinearModel(A)
        y = Gaussian(M(x), 0.5, name="y")
        dens = [y, x, b]
        vals = {"y": ydata, "x": xval, "b": pos()}
        out["models"]["A"] = M
    elif g == "mean_m":
        mm = Gaussian(0.0, 1.0, name="m")
        s = Gamma(1.0, 0.1, name="s")
        x = Gaussian(named_fn("m", lambda v: v * np.ones(n), hook, "x.mean"), 0.6, name="x", geometry=n)
        M = LinearModel(A)
        y = Gaussian(M(x), cov=inv("s", "y.cov"), name="y")
        dens = [y, x, mm, s]
        vals = {"y": ydata, "x": xval, "m": float(rs.randn()), "s": pos()}
        out["models"]["A"] = M
    elif g == "reg_s":
        s = Gamma(1.0, 0.1, name="s")
        x = RegularizedGaussian(np.zeros(n), 1.0, constraint="nonnegativity", name="x")
        M = LinearModel(A)
        y = Gaussian(M(x), cov=inv("s", "y.cov"), name="y")
        dens = [y, x, s]
        vals = {"y": ydata, "x": np.abs(xval), "s": pos()}
        out["models"]["A"] = M
    elif g == "lognormal":
        s = Gamma(1.0, 0.1, name="s")
        x = Lognormal(np.zeros(n), 0.5 * np.eye(n), name="x")
        M = LinearModel(A)
        y = Gaussian(M(x), cov=inv("s", "y.cov"), name="y")
        dens = [y, x, s]
        vals = {"y": ydata, "x": np.exp(xval * 0.3), "s": pos()}
        out["models"]["A"] = M
    elif g == "reg_d":
        # implicit (regularised) prior with a hyper-parameter: it has no log-density of its own (NaN), but conditioning,
        # names, conditioning variables and sampling refusal still have to behave
        d = Gamma(1.0, 0.1, name="d")
        x = RegularizedGaussian(np.zeros(n), prec=idt("d", "x.prec"), constraint="nonnegativity", name="x")
        M = LinearModel(A)
        y = Gaussian(M(x), 0.3, name="y")
        dens = [y, x, d]
        vals = {"y": ydata, "x": np.abs(xval), "d": pos()}
        out["models"]["A"] = M
    elif g == "lin_geom":
        # explicit, non-default geometries: the model's domain geometry and the prior's geometry are equal but
        # distinct objects
        from cuqi.geometry import Continuous1D
        s = Gamma(1.0, 0.1, name="s")
        x = Gaussian(np.zeros(n), 0.8, geometry=Continuous1D(np.linspace(0, 1, n)), name="x")
        M = LinearModel(A, domain_geometry=Continuous1D(np.linspace(0, 1, n)), range_geometry=Continuous1D(np.linspace(0, 1, m)))
        y = Gaussian(M(x), cov=inv("s", "y.cov"), name="y")
        dens = [y, x, s]
        vals = {"y": ydata, "x": xval, "s": pos()}
        out["models"]["A"] = M
    elif g == "lin_step":
        # the unknown lives on a geometry whose parameter-to-function map is not the identity (n step heights -> 3n nodes);
        # model and prior carry equal but distinct geometry objects
        from cuqi.geometry import StepExpansion
        s = Gamma(1.0, 0.1, name="s")
        A3 = rs.randn(m, 3 * n)
        x = Gaussian(np.zeros(n), 0.8, geometry=StepExpansion(np.linspace(0, 1, 3 * n), n_steps=n), name="x")
        M = LinearModel(A3, domain_geometry=StepExpansion(np.linspace(0, 1, 3 * n), n_steps=n), range_geometry=m)
        y = Gaussian(M(x), cov=inv("s", "y.cov"), name="y")
        dens = [y, x, s]
        vals = {"y": ydata, "x": xval, "s": pos()}
        out["models"]["A"] = M
    elif g == "kl_nonlin":
        # KL-expansion geometry (n coefficients -> 12 node values, coefficient table computed lazily on first use);
        # prior and model carry equal but distinct geometry objects, the model acts on function values
        from cuqi.geometry import KLExpansion
        s = Gamma(1.0, 0.1, name="s")
        A12 = rs.randn(m, 12)
        x = Gaussian(np.zeros(n), 0.8, geometry=KLExpansion(np.linspace(0, 1, 12), num_modes=n), name="x")
        M = Model(lambda x: A12 @ np.tanh(x), range_geometry=m, domain_geometry=KLExpansion(np.linspace(0, 1, 12), num_modes=n))
        y = Gaussian(M(x), cov=inv("s", "y.cov"), name="y")
        dens = [y, x, s]
        vals = {"y": ydata, "x": xval, "s": pos()}
        out["models"]["A"] = M
    elif g == "gamma_mv":
        # TWO callable parameters of one density that share BOTH their arguments (a Gamma given by mean and variance)
        mm = Gamma(3.0, 1.0, name="m")
        vv = Gamma(2.0, 2.0, name="v")
        h = Gamma(shape=lambda m, v: m ** 2 / v, rate=lambda m, v: m / v, geometry=1, name="h")
        dens = [h, mm, vv]
        vals = {"h": pos(), "m": pos() + 0.5, "v": pos()}
    elif g == "heat_pde":
        # forward model behind the time-dependent PDE interface (shipped heat-equation test problem, small grid): the model
        # object owns a solver; prior and model share the domain geometry object, as in the library's examples
        import cuqi
        TP = cuqi.testproblem.Heat1D(dim=n + 4, max_time=0.01)
        M = TP.model
        N_ = M.domain_dim
        s = Gamma(1.0, 0.1, name="s")
        x = Gaussian(np.zeros(N_), 0.8, geometry=M.domain_geometry, name="x")
        y = Gaussian(M(x), cov=inv("s", "y.cov"), name="y")
        dens = [y, x, s]
        vals = {"y": rs.randn(M.range_dim), "x": rs.randn(N_) * 0.7, "s": pos()}
        out["models"]["A"] = M
    elif g == "userdef_x":
        # a user-defined prior whose callables hand out PERSISTENT arrays (a pre-computed constant gradient, one stored
        # draw): legal, and nothing the library does with them may write into them
        from cuqi.distribution import UserDefinedDistribution
        gconst = -2.0 * np.ones(n)
        pool = np.linspace(0.2, 1.0, n)
        s = Gamma(1.0, 0.1, name="s")
        x = UserDefinedDistribution(dim=n, logpdf_func=lambda v: float(gconst @ np.asarray(v, float).reshape(-1)),
                                    gradient_func=lambda v: gconst, sample_func=lambda: pool, name="x")
        M = LinearModel(A)
        y = Gaussian(M(x), cov=inv("s", "y.cov"), name="y")
        dens = [y, x, s]
        vals = {"y": ydata, "x": xval, "s": pos()}
        out["models"]["A"] = M
    elif g == "mapped_x":
        # a positive field represented by its logarithm (MappedGeometry exp); the value of x is handed over as a plain
        # array, as a CUQIarray of parameters or as a CUQIarray of FUNCTION VALUES (rec['xform'])
        from cuqi.geometry import MappedGeometry, Continuous1D
        from cuqi.array import CUQIarray
        Gm = MappedGeometry(Continuous1D(n), map=np.exp, imap=np.log)
        d = Gamma(2.0, 1.0, name="d")
        x = Gaussian(np.zeros(n), prec=idt("d", "x.prec"), geometry=Gm, name="x")
        M = LinearModel(lambda x: A @ x, lambda y: A.T @ y, range_geometry=m, domain_geometry=Gm)
        y = Gaussian(M(x), 0.3, name="y")
        dens = [y, x, d]
        xv = xval * 0.4
        form = rec.get("xform", "array")
        if form == "cuqi_par":
            xv = CUQIarray(xv, is_par=True, geometry=Gm)
        elif form == "cuqi_fun":
            xv = CUQIarray(xv, is_par=True, geometry=Gm).funvals
        vals = {"y": ydata, "x": xv, "d": pos()}
        out["models"]["A"] = M
        if form != "cuqi_fun":
            out["closed_form"] = lambda v: (_lg(v["y"] - A @ np.exp(np.asarray(v["x"], float)), 0.3)
                                            + _lg(np.asarray(v["x"], float), 1 / v["d"]) + _lgam(v["d"], 2.0, 1.0))
    elif g == "mrf2d":
        # a 3x3 image: GMRF or LMRF prior with physical dimension 2 on an Image2D geometry, image-aware linear model
        from cuqi.geometry import Image2D
        k_ = 3
        A9 = rs.randn(m, k_ * k_)
        d = Gamma(1.0, 0.1, name="d")
        kind2 = rec.get("mrf", "gmrf")
        if kind2 == "gmrf":
            x = GMRF(np.zeros(k_ * k_), prec=idt("d", "x.prec"), geometry=Image2D((k_, k_)), name="x")
        else:
            x = LMRF(0, scale=inv("d", "x.scale"), geometry=Image2D((k_, k_)), name="x")
        M = LinearModel(lambda x: A9 @ np.ravel(x), lambda y: (A9.T @ y).reshape(k_, k_), range_geometry=m,
                        domain_geometry=Image2D((k_, k_)))
        y = Gaussian(M(x), 0.3, name="y")
        dens = [y, x, d]
        vals = {"y": ydata, "x": rs.randn(k_ * k_) * 0.7, "d": pos()}
        out["models"]["A"] = M
        D1 = np.zeros((k_ + 1, k_))
        for i_ in range(k_):
            D1[i_, i_], D1[i_ + 1, i_] = 1.0, -1.0
        D2 = np.vstack([np.kron(np.eye(k_), D1), np.kron(D1, np.eye(k_))])
        if kind2 == "gmrf":
            P2 = D2.T @ D2
            ld2 = float(np.linalg.slogdet(P2)[1])
            pri2 = lambda v: 0.5 * (k_ * k_ * (np.log(v["d"]) - np.log(2 * np.pi)) + ld2) - 0.5 * v["d"] * float(v["x"] @ P2 @ v["x"])
        else:
            pri2 = lambda v: D2.shape[0] * (-(np.log(2) + np.log(1 / v["d"]))) - float(np.sum(np.abs(D2 @ v["x"]))) * v["d"]
        out["closed_form"] = lambda v: _lg(v["y"] - A9 @ np.asarray(v["x"], float), 0.3) + pri2(v) + _lgam(v["d"], 1.0, 0.1)
    elif g == "two_lik_shared":
        # ONE model object shared by two data distributions (two data sets observed through the same operator)
        s = Gamma(1.0, 0.1, name="s")
        x = Gaussian(np.zeros(n), 0.8, name="x")
        M = LinearModel(A)
        y1 = Gaussian(M(x), 0.4, name="y1")
        y2 = Gaussian(M(x), cov=inv("s", "y2.cov"), name="y2")
        dens = [y1, y2, x, s]
        vals = {"y1": ydata, "y2": rs.randn(m), "x": xval, "s": pos()}
        out["models"]["A"] = M
    elif g == "cov_sd":
        # one callable with TWO hyper-parameter arguments, which may be fixed in separate steps (functools.partial path)
        s = Gamma(1.0, 0.1, name="s")
        d = Gamma(2.0, 0.5, name="d")
        x = Gaussian(np.zeros(n), 0.8, name="x")
        M = LinearModel(A)
        y = Gaussian(M(x), cov=lambda s, d: 1.0 / (s + 0.5 * d), name="y")
        dens = [y, x, s, d]
        vals = {"y": ydata, "x": xval, "s": pos(), "d": pos()}
        out["models"]["A"] = M
    elif g == "selfnamed":
        # the hyper-parameter is called like the attribute it enters through, with a NON-identity callable
        prec = Gamma(2.0, 1.0, name="prec")
        x = Gaussian(np.zeros(n), prec=lambda prec: 2.5 * prec, name="x")
        M = LinearModel(A)
        y = Gaussian(M(x), 0.4, name="y")
        dens = [y, x, prec]
        vals = {"y": ydata, "x": xval, "prec": pos()}
        out["models"]["A"] = M
    elif g == "cov_sdt":
        # one callable with THREE arguments, fixed in up to three separate steps
        s = Gamma(1.0, 0.1, name="s")
        d = Gamma(2.0, 0.5, name="d")
        t = Gamma(1.5, 0.7, name="t")
        x = Gaussian(np.zeros(n), 0.8, name="x")
        M = LinearModel(A)
        y = Gaussian(M(x), cov=lambda s, d, t: 1.0 / (s + 0.5 * d) + 0.1 * t, name="y")
        dens = [y, x, s, d, t]
        vals = {"y": ydata, "x": xval, "s": pos(), "d": pos(), "t": pos()}
        out["models"]["A"] = M
    elif g == "direct_param":
        # a conditioning variable that IS a parameter left unspecified (mean=None), not a callable: the variable of the
        # joint is literally called "mean"
        from cuqi.distribution import Laplace as _Laplace
        mean_ = _Laplace(np.zeros(m), 1.5, name="mean")     # (a family without a parameter of its own called "mean")
        s = Gamma(1.0, 0.1, name="s")
        y = Gaussian(mean=None, cov=inv("s", "y.cov"), geometry=m, name="y")
        dens = [y, mean_, s]
        vals = {"y": ydata, "mean": rs.randn(m) * 0.5, "s": pos()}
    elif g == "sigdep_x":
        # signal-dependent noise: the SAME variable feeds two callables (mean and covariance) of one density
        d = Gamma(1.0, 0.1, name="d")
        x = Gaussian(np.zeros(n), prec=idt("d", "x.prec"), name="x")
        y = Gaussian(named_fn("x", lambda v: A @ v, hook, "y.mean"),
                     cov=named_fn("x", lambda v: 0.2 + 0.05 * float(np.asarray(v) @ np.asarray(v)), hook, "y.cov"),
                     name="y", geometry=m)
        dens = [y, x, d]
        vals = {"y": ydata, "x": xval, "d": pos()}
    elif g == "lognormal_cov_s":
        s = Gamma(2.0, 1.0, name="s")
        x = Lognormal(np.zeros(n), named_fn("s", lambda v: v * np.eye(n), hook, "x.cov"), name="x")
        M = LinearModel(A)
        y = Gaussian(M(x), 0.4, name="y")
        dens = [y, x, s]
        vals = {"y": ydata, "x": np.exp(xval * 0.3), "s": pos()}
        out["models"]["A"] = M
    elif g == "lin_sqrtprecF":
        s = Gamma(1.0, 0.1, name="s")
        Bq = rs.randn(n, n) * 0.3
        R = np.asfortranarray(np.eye(n) + 0.5 * (Bq + Bq.T))        # dense, non-triangular, column-major square root
        x = Gaussian(np.zeros(n), sqrtprec=R, name="x")
        M = LinearModel(A)
        y = Gaussian(M(x), cov=inv("s", "y.cov"), name="y")
        dens = [y, x, s]
        vals = {"y": ydata, "x": xval, "s": pos()}
        out["models"]["A"] = M
    else:
        raise ValueError(g)
    # closed forms written out by the harness for the all-Gaussian/Gamma graphs: the reference for the complete assignment
    # that does not pass through any library conditioning code
    if g == "two_lik_shared":
        out["closed_form"] = lambda v: (_lg(v["y1"] - A @ v["x"], 0.4) + _lg(v["y2"] - A @ v["x"], 1 / v["s"]) + _lg(v["x"], 0.8)
                                        + _lgam(v["s"], 1.0, 0.1))
    elif g == "userdef_x":
        out["closed_form"] = lambda v: (_lg(v["y"] - A @ v["x"], 1 / v["s"]) - 2.0 * float(np.sum(v["x"])) + _lgam(v["s"], 1.0, 0.1))
    elif g == "gamma_mv":
        out["closed_form"] = lambda v: (_lgam(v["h"], v["m"] ** 2 / v["v"], v["m"] / v["v"]) + _lgam(v["m"], 3.0, 1.0)
                                        + _lgam(v["v"], 2.0, 2.0))
    elif g == "lin_step":
        out["closed_form"] = lambda v: (_lg(v["y"] - A3 @ np.repeat(np.asarray(v["x"], float), 3), 1 / v["s"]) + _lg(v["x"], 0.8)
                                        + _lgam(v["s"], 1.0, 0.1))
    elif g == "lin_s":
        out["closed_form"] = lambda v: _lg(v["y"] - A @ v["x"], 1 / v["s"]) + _lg(v["x"], 0.8) + _lgam(v["s"], 1.0, 0.1)
    elif g == "lin_d_s":
        out["closed_form"] = lambda v: (_lg(v["y"] - A @ v["x"], 1 / v["s"]) + _lg(v["x"], 1 / v["d"])
                                        + _lgam(v["d"], 1.0, 0.1) + _lgam(v["s"], 2.0, 0.5))
    elif g == "cov_sd":
        out["closed_form"] = lambda v: (_lg(v["y"] - A @ v["x"], 1.0 / (v["s"] + 0.5 * v["d"])) + _lg(v["x"], 0.8)
                                        + _lgam(v["s"], 1.0, 0.1) + _lgam(v["d"], 2.0, 0.5))
    elif g == "cov_sdt":
        out["closed_form"] = lambda v: (_lg(v["y"] - A @ v["x"], 1.0 / (v["s"] + 0.5 * v["d"]) + 0.1 * v["t"]) + _lg(v["x"], 0.8)
                                        + _lgam(v["s"], 1.0, 0.1) + _lgam(v["d"], 2.0, 0.5) + _lgam(v["t"], 1.5, 0.7))
    elif g == "selfnamed":
        out["closed_form"] = lambda v: (_lg(v["y"] - A @ v["x"], 0.4) + _lg(v["x"], 1 / (2.5 * v["prec"]))
                                        + _lgam(v["prec"], 2.0, 1.0))
    elif g == "nonlin":
        out["closed_form"] = lambda v: (_lg(v["y"] - np.tanh(A @ v["x"]), 1 / v["s"])
                                        + float(np.sum([_lg(v["x"][i] - 0.3, c_) for i, c_ in enumerate(np.linspace(0.5, 1.5, n))]))
                                        + _lgam(v["s"], 1.0, 0.1))
    elif g == "two_lik":
        A2_, y2_ = A2, vals["y2"]
        out["closed_form"] = lambda v: (_lg(v["y1"] - A @ v["x"], 0.4) + _lg(v["y2"] - A2_ @ v["x"], 1 / v["s"]) + _lg(v["x"], 0.8)
                                        + _lgam(v["s"], 1.0, 0.1))
    elif g == "xz_s":
        out["closed_form"] = lambda v: (_lg(v["y"] - A @ v["x"] - B @ v["z"], 1 / v["s"]) + _lg(v["x"], 1.0)
                                        + _lg(np.asarray(v["z"], float) - 1.0, 2.0) + _lgam(v["s"], 1.0, 0.1))
    elif g == "laplace_b":
        out["closed_form"] = lambda v: (_lg(v["y"] - A @ v["x"], 0.5) + n * np.log(0.5 / v["b"])
                                        - float(np.sum(np.abs(v["x"]))) / v["b"] + _lgam(v["b"], 2.0, 1.0))
    elif g == "mean_m":
        out["closed_form"] = lambda v: (_lg(v["y"] - A @ v["x"], 1 / v["s"]) + _lg(np.asarray(v["x"], float) - float(np.ravel(v["m"])[0]), 0.6)
                                        + _lg(np.ravel(v["m"]), 1.0) + _lgam(v["s"], 1.0, 0.1))
    elif g == "lin_geom":
        out["closed_form"] = lambda v: _lg(v["y"] - A @ v["x"], 1 / v["s"]) + _lg(v["x"], 0.8) + _lgam(v["s"], 1.0, 0.1)
    elif g in ("lmrf_d", "cmrf_d") and rec.get("bc", "zero") == "zero":
        Dz = np.zeros((n + 1, n))
        for i_ in range(n):
            Dz[i_, i_], Dz[i_ + 1, i_] = 1.0, -1.0
        if g == "lmrf_d":
            pri = lambda v: (n + 1) * (-(np.log(2) + np.log(1 / v["d"]))) - float(np.sum(np.abs(Dz @ v["x"]))) * v["d"]
        else:
            pri = lambda v: -(n + 1) * np.log(np.pi) + float(np.sum(np.log(1 / v["d"]) - np.log((Dz @ v["x"]) ** 2 + (1 / v["d"]) ** 2)))
        out["closed_form"] = lambda v: _lg(v["y"] - A @ v["x"], 0.3) + pri(v) + _lgam(v["d"], 1.0, 0.1)
    elif g == "gmrf_d_s" and rec.get("bc", "zero") == "zero":
        Dz = np.zeros((n + 1, n))
        for i_ in range(n):
            Dz[i_, i_], Dz[i_ + 1, i_] = 1.0, -1.0
        P_ = Dz.T @ Dz
        ld_ = float(np.linalg.slogdet(P_)[1])
        out["closed_form"] = lambda v: (_lg(v["y"] - A @ v["x"], 1 / v["s"])
                                        + 0.5 * (n * (np.log(v["d"]) - np.log(2 * np.pi)) + ld_) - 0.5 * v["d"] * float(v["x"] @ P_ @ v["x"])
                                        + _lgam(v["d"], 1.0, 0.1) + _lgam(v["s"], 2.0, 0.5))
    J = JointDistribution(*dens)
    out.update(J=J, names=[d_.name for d_ in dens], vals=vals, dens={d_.name: d_ for d_ in dens})
    return out
