"""Engine `chain` (C14): chains are continuous, resumable from a checkpoint, recorded faithfully.

A *reference run* (warmup(W) then one sample(P) on tape tau) is compared with a *perturbed run*
of the same scenario on the same tape whose operation list splits the sampling phase, saves
checkpoints through the simulated file system, crashes (between transitions, inside a transition,
from inside the callback), restarts in the same or a new simulated process, injects I/O errors
into the save and interleaves benign observers.  Interfaces: experimental samplers, legacy
samplers, HybridGibbs, legacy Gibbs.
"""
import numpy as np

from sim import core, zoo
from sim.core import as_vec, bit_equal

PROP = "C14"


class EngineBase:
    name = "?"
    real = []
    stub = []
    assumptions = []
    rule = ""

    def shrink(self, case):
        return iter(())


# =========================================================================== experimental

def chain_of(sampler):
    """(dim, N) float array of the recorded chain of an experimental sampler ((d,0) if empty)."""
    if not getattr(sampler, "_is_initialized", False) or len(sampler._samples) == 0:
        return np.zeros((0, 0))
    a = np.array(sampler.get_samples().samples, float)
    if a.ndim == 1:
        a = a.reshape(1, -1)
    return a


class _UserAbort(Exception):
    """Raised by the scripted user callback (a failing monitor, a user abort)."""


class _Incarnation:
    """One sampler object's life (until the crash that discards it)."""

    def __init__(self, sampler, info, start_pos, with_warmup):
        self.s, self.info = sampler, info
        self.start_pos = start_pos          # sampling position represented by its state at birth
        self.cb = []                        # [(index, original_obj, deep_copy)]
        self.n_steps = 0                    # transitions executed by this object (incl. warm-up)
        self.with_warmup = with_warmup
        self.snapshots = []                 # [(Samples_obj, copy_of_array)]
        self.trans_evals = []               # per transition: list of evaluated points
        self.mode = None                    # restart mode that created this object


class ExpRun:
    """Interpreter for the experimental (stateful) interface.

    The logical run is a *timeline* of phases [("warmup", n) | ("sample", n), ...]; adjacent sample phases merge
    (N then M == N+M), warm-up phases never do (their tuning schedule depends on the call).  A checkpoint stores the
    timeline it belongs to; a restart rewinds the timeline to it.  Every sampler object ("incarnation") is compared
    with an uninterrupted reference run of *its own* timeline on the same tape."""

    def __init__(self, ctx, case):
        self.ctx, self.case = ctx, case
        self.sc = case["scenario"]
        self.kind = self.sc["kind"]
        self.W = self.sc["W"]
        self.fs = core.SimFS(ctx)
        self.fs.install()
        self.setup_seed = core.derive_seed("setup", case["seed"], 0)
        self.incs = []
        self.armed_cb_ckpt = None           # (countdown, path)
        self.ckpts = {}                     # path -> dict(tape, timeline)
        self.last_ckpt = None
        self.tape0 = None
        self.timeline = []
        self.cur_op_done = 0
        self._ref_cache = {}

    # ---- timeline helpers ----------------------------------------------------------------
    @staticmethod
    def _tl_add(tl, phase, n):
        tl = [list(x) for x in tl]
        if n <= 0:
            return tl
        if phase == "sample" and tl and tl[-1][0] == "sample":
            tl[-1][1] += n
        else:
            tl.append([phase, n])
        return tl

    @staticmethod
    def _tl_total(tl):
        return sum(n for _, n in tl)

    # ---- construction -----------------------------------------------------------------
    def _callback_for(self, inc_box):
        ctx = self.ctx

        def cb(sample, index):
            inc = inc_box[0]
            inc.cb.append((index, sample, as_vec(sample)))
            ctx.log("callback", index, as_vec(sample))
            self.cur_op_done += 1
            # delimit probe traces per transition
            for p in inc.probes:
                inc.cur_evals.extend([a[0] for a, _, _ in p.trace])
                p.trace.clear()
            inc.trans_evals.append(inc.cur_evals)
            inc.cur_evals = []
            if getattr(self, "armed_cb_raise", None) is not None:
                if self.armed_cb_raise <= 0:
                    self.armed_cb_raise = None
                    ctx.fault("callback_raises")
                    raise _UserAbort("the user's callback raises")
                self.armed_cb_raise -= 1
            if self.armed_cb_ckpt is not None:
                n, path = self.armed_cb_ckpt
                if n <= 0:
                    self.armed_cb_ckpt = None
                    ctx.fault("checkpoint_in_callback")
                    # state inside the callback = state after the transitions of the current sample() call so far
                    self._save(inc, path, self._tl_add(self.timeline, "sample", self.cur_op_done))
                else:
                    self.armed_cb_ckpt = (n - 1, path)
        return cb

    def _new(self, start_total, first, explicit_init):
        box = [None]
        cb = self._callback_for(box) if self.sc.get("cb", True) else None
        with core.setup_stream(self.setup_seed):
            s, info = zoo.build_exp_sampler(self.ctx, self.sc, callback=cb)
            if explicit_init:
                s.initialize()
        inc = _Incarnation(s, info, start_total, first)
        inc.probes = [p for p in (info.get("logd"), info.get("forward")) if p is not None]
        for p in inc.probes:
            p.trace = []
        inc.cur_evals = []
        box[0] = inc
        self.incs.append(inc)
        return inc

    # ---- durable state ----------------------------------------------------------------
    def _save(self, inc, path, timeline):
        inc.s.save_checkpoint(path)
        import copy as _copy
        st_ = inc.s.get_state()
        st_ = {"metadata": dict(st_["metadata"]), "state": {k_: _copy.deepcopy(v_) for k_, v_ in st_["state"].items()}}
        self.ckpts[path] = {"tape": np.random.get_state(), "timeline": [list(x) for x in timeline], "saved_by": inc,
                            "state": st_}
        self.last_ckpt = path
        tot = self._tl_total(timeline)
        self.ctx.log("checkpoint", path, tot)
        if tot == self.W:
            self.ctx.hit("checkpoint_at_0")
        if tot == 0:
            self.ctx.hit("checkpoint_before_any_transition")

    # ---- the two runs -------------------------------------------------------------------
    def reference(self, timeline):
        key = tuple((p, n) for p, n in timeline)
        if key in self._ref_cache:
            return self._ref_cache[key]
        saved = np.random.get_state()
        core.reset_volatile_globals()
        np.random.set_state(self.tape0)
        cb = (lambda x, i: None) if self.sc.get("cb", True) else None
        with core.setup_stream(self.setup_seed):
            s, info = zoo.build_exp_sampler(core.Ctx(0), dict(self.sc), callback=cb)   # private ctx: no logging into the run
            if not self.sc.get("lazy_init"):
                s.initialize()
        for phase, n in timeline:
            if phase == "warmup":
                s.warmup(n, tune_freq=self.sc.get("tune_freq", 0.1))
            else:
                s.sample(n)
        R = chain_of(s)
        acc = [np.array(a, float) for a in s.get_history()["history"]["_acc"]] if s._is_initialized else [1]
        np.random.set_state(saved)
        self._ref_cache[key] = (R, acc)
        return R, acc

    def _warmup_calls(self):
        """the prior warm-up, possibly given as several warmup() calls (scenario knob W_split)"""
        k = self.sc.get("W_split")
        if not k or k >= self.W:
            return [self.W]
        return [k, self.W - k]

    def _do_phase(self, inc, phase, n, batch=0):
        self.cur_op_done = 0
        if phase == "warmup" and not inc.with_warmup:
            inc.warmup_after_restore = True
        if phase == "warmup":
            inc.s.warmup(n, tune_freq=self.sc.get("tune_freq", 0.1))
        elif batch:
            # sample batches go to the simulated disk; they must not influence the chain and every batch written must be
            # the corresponding slice of the chain produced by this call
            n0 = len(inc.s._samples) if inc.s._is_initialized else 0
            self.fs.batches.clear()
            inc.s.sample(n, batch_size=int(batch), sample_path="/simfs/batches/")
            self.ctx.fault("batch_writer_active")
            rows = [np.array(x, float).reshape(-1) for x in inc.s._samples[n0:]]
            for path, arrs in sorted(self.fs.batches.items()):
                k = int(arrs["batch_id"])
                blk = np.array(arrs["samples"], float).reshape(len(arrs["samples"]), -1)
                want = rows[k * int(batch):(k + 1) * int(batch)]
                ok = len(want) == blk.shape[0] and all(bit_equal(a, b) for a, b in zip(blk, want))
                if not ok:
                    self.ctx.violate(PROP, "batch_differs_from_chain", self._sig(), batch=k, path=path)
                    break
        else:
            getattr(inc.s, phase)(n)
        inc.n_steps += n
        self.timeline = self._tl_add(self.timeline, phase, n)

    def run(self):
        ctx, sc = self.ctx, self.sc
        self.tape0 = np.random.get_state()
        core.reset_volatile_globals()
        inc = self._new(0, True, not sc.get("lazy_init"))
        if self.W:
            for w_ in self._warmup_calls():
                self._do_phase(inc, "warmup", w_)
        segs = []     # finished incarnations: (inc, timeline at finish, chain, acc)
        pending_fs = None
        stop = False
        for op in self.case["ops"]:
            if stop:
                break
            o = op["op"]
            ctx.log("op", o, {k: v for k, v in op.items() if k != "op"})
            if o in ("sample", "warmup"):
                n = int(op["n"])
                try:
                    self._do_phase(inc, o, n, batch=op.get("batch", 0))
                    if len(self.case["ops"]) > 1:
                        ctx.nontrivial = True
                    if o == "warmup":
                        ctx.hit("warmup_in_mid_run")
                except _UserAbort:
                    # the user's callback raised after a transition: the run is left early, the object lives on and the
                    # caller continues with it.  Every transition made so far belongs to the record.
                    done = self.cur_op_done
                    inc.n_steps += done
                    self.timeline = self._tl_add(self.timeline, o, done)
                    ctx.nontrivial = True
                except core.SimCrash:
                    # crash at an arbitrary instant inside a transition -> object is gone
                    inc = self._restart(inc, segs, "new_process" if ctx.sched.random() < .5 else "same_process",
                                        crashed_inside=True)
                for p in inc.probes:
                    p.fault_plan.clear()          # an armed crash that did not fire is disarmed
                self.armed_cb_ckpt = None
                self.armed_cb_raise = None
            elif o == "checkpoint":
                path = op.get("path", "ck_a")
                if pending_fs is not None:
                    site, kind = pending_fs
                    pending_fs = None
                    self.fs.arm(site, kind)
                    try:
                        self._save(inc, path, self.timeline)
                        ctx.violate(PROP, "fs_fault_swallowed", {"kind": self.kind, "iface": "exp"},
                                    site=site, errno=kind)
                    except core.SimFSError:
                        self.ckpts.pop(path, None)
                        if self.last_ckpt == path:
                            self.last_ckpt = None
                        self.fs.durable.pop(path, None)      # whatever is there is not a checkpoint
                    self.fs.plan.clear()
                self._save(inc, path, self.timeline)
            elif o == "fs_fault":
                pending_fs = (op["at"], op["kind"])
            elif o == "callback_raises":
                if sc.get("cb", True):
                    self.armed_cb_raise = int(op["k"])
            elif o == "checkpoint_in_callback":
                if sc.get("cb", True):
                    self.armed_cb_ckpt = (int(op["k"]), op.get("path", "ck_cb"))
            elif o == "crash_in_step":
                if inc.probes:
                    p = inc.probes[0]
                    p.fault_plan[p.calls + 1 + int(op["j"])] = "raise"
            elif o == "crash_restart":
                inc = self._restart(inc, segs, op.get("mode", "same_process"))
            elif o == "benign":
                self._benign(inc, op["what"])
            elif o == "reinit_check":
                self._finish(inc, segs)
                self._reinit_check(inc, int(op["n"]))
                stop = True
        if not stop:
            self._finish(inc, segs)
        self._oracles(segs)

    def _finish(self, inc, segs):
        chain = chain_of(inc.s)
        acc = [np.array(a, float) for a in inc.s.get_history()["history"]["_acc"]] if inc.s._is_initialized else [1]
        inc.cb = list(inc.cb)                 # freeze: later use of the object is not part of this record
        inc.trans_evals = list(inc.trans_evals)
        segs.append((inc, [list(x) for x in self.timeline], chain, acc))
        inc.s.callback = None

    def _restart(self, inc, segs, mode, crashed_inside=False):
        ctx = self.ctx
        if self.last_ckpt is None:
            if crashed_inside:
                # nothing durable: the run starts over from the very beginning
                ctx.fault("crash_in_step_no_checkpoint")
                self.fs.crash()
                core.reset_volatile_globals()
                np.random.set_state(self.tape0)
                self.timeline = []
                new = self._new(0, True, not self.sc.get("lazy_init"))
                if self.W:
                    for w_ in self._warmup_calls():
                        self._do_phase(new, "warmup", w_)
                return new
            ctx.count("crash_skipped_no_checkpoint")
            return inc
        if not crashed_inside:
            self._finish(inc, segs)        # in-flight transitions are lost but were valid transitions
        ctx.fault("crash_restart_" + mode + ("_inside_transition" if crashed_inside else ""))
        self.fs.crash()
        ck = self.ckpts[self.last_ckpt]
        if mode == "new_process":
            core.reset_volatile_globals()
        self.timeline = [list(x) for x in ck["timeline"]]
        tot = self._tl_total(self.timeline)
        new = self._new(tot, False, False)
        new.mode = mode
        new.parent = ck["saved_by"]
        with core.setup_stream(self.setup_seed + 1):
            if ck.get("state") is not None and self.ctx.sched.random() < 0.5:
                # the state dictionary is carried over in memory (get_state -> set_state) into a fresh, initialised
                # sampler instead of going through the checkpoint file
                new.s.initialize()
                new.s.set_state(ck["state"])
                self.ctx.fault("restart_by_state_dict")
            else:
                new.s.load_checkpoint(self.last_ckpt)
        np.random.set_state(ck["tape"])
        self.armed_cb_ckpt = None
        if getattr(new.s, "step_size", 0) is None:
            ctx.hit("restart_of_sampler_whose_init_draws")
        if isinstance(self.sc["knobs"].get("scale"), list):
            ctx.hit("restore_array_scale")
        if tot == self.W:
            ctx.hit("restart_from_position_0")
        return new

    def _benign(self, inc, what):
        s = inc.s
        self.ctx.count("benign")
        if what == "repr":
            repr(s)
        elif what == "get_state":
            s.get_state()
        elif what == "set_state_roundtrip":
            s._ensure_initialized() if False else None
            if s._is_initialized:
                s.set_state(s.get_state())
        elif what == "get_history":
            s.get_history()
        elif what == "set_history_roundtrip":
            if s._is_initialized:
                s.set_history(s.get_history())
        elif what == "get_samples":
            if s._is_initialized and len(s._samples):
                S = s.get_samples()
                inc.snapshots.append((S, np.array(S.samples, float, copy=True)))
        elif what == "save_other":
            s.save_checkpoint("ck_other")
        self.ctx.nontrivial = True

    # ---- oracles -------------------------------------------------------------------------
    def _sig(self, **k):
        d = {"engine": "chain", "iface": "exp", "kind": self.kind}
        if getattr(self, "_cur_inc", None) is not None and self._descends_from_diverged(self._cur_inc):
            # restored from a checkpoint written by an object that had already diverged (reported there)
            d["descends_from_diverged"] = True
        d.update(k)
        return d

    def _descends_from_diverged(self, inc):
        p = getattr(inc, "parent", None)
        while p is not None:
            if getattr(p, "diverged", False):
                return True
            p = getattr(p, "parent", None)
        return False

    def _oracles(self, segs):
        ctx = self.ctx
        for (inc, timeline, chain, acc) in segs:
            self._cur_inc = inc
            nviol = len(ctx.violations)
            self._oracles_one(inc, timeline, chain, acc)
            if len(ctx.violations) > nviol:
                inc.diverged = True
        self._cur_inc = None

    def _oracles_one(self, inc, timeline, chain, acc):
        ctx = self.ctx
        if True:
            R, Racc = self.reference(timeline)
            with_w = inc.with_warmup            # True for an object that lived from the very start
            off = inc.start_pos                 # transitions of the timeline that precede this object
            start = off
            n = chain.shape[1]
            ctx.count("transitions", n)
            # 3 length
            if n != inc.n_steps:
                ctx.violate(PROP, "length", self._sig(), got=n, executed=inc.n_steps)
                return
            ref = R[:, off:off + n]
            # 1/2 continuity + resume
            if n and not (ref.shape == chain.shape and np.array_equal(ref, chain, equal_nan=True)):
                first = int(np.argmax(np.any(ref != chain, axis=0))) if ref.shape == chain.shape else -1
                extra = {}
                if self.kind == "RegularizedLinearRTO":
                    extra = {"stepsize": str(self.sc["knobs"].get("stepsize")), "mode": inc.mode}
                if self.kind == "NUTS" and not with_w:
                    extra = {"warmup_after_restore": bool(getattr(inc, "warmup_after_restore", False)),
                             "step_size_searched": self.sc["knobs"].get("step_size") is None}
                ctx.violate(PROP, "resume" if not with_w else "continuity",
                            self._sig(restarted=not with_w, **extra),
                            start_pos=start, first_bad_column=first, timeline=timeline,
                            maxdiff=float(np.max(np.abs(ref - chain))) if ref.shape == chain.shape else None)
            # acceptance history
            racc = Racc[1 + off: 1 + off + n]
            mine = acc[1:]
            if len(mine) != len(racc) or any(not bit_equal(a, b) for a, b in zip(mine, racc)):
                if not (n and not np.array_equal(ref, chain, equal_nan=True)):   # do not double report
                    ctx.violate(PROP, "acc_history", self._sig(restarted=not with_w), start_pos=start)
            # 4 callback
            if self.sc.get("cb", True):
                idx = [c[0] for c in inc.cb]
                if idx != list(range(n)):
                    ctx.violate(PROP, "callback_indices", self._sig(), got=idx[:12], expected_n=n)
                else:
                    for (i, obj, cp) in inc.cb:
                        if not bit_equal(cp, chain[:, i]):
                            ctx.violate(PROP, "callback_state", self._sig(), index=i)
                            break
                # 5 immutability of what was handed over
                for (i, obj, cp) in inc.cb:
                    if not bit_equal(obj, cp):
                        ctx.violate(PROP, "record_mutated_after_handover", self._sig(what="callback_array"), index=i)
                        break
            for (S, cp) in inc.snapshots:
                if not np.array_equal(np.array(S.samples, float), cp, equal_nan=True):
                    ctx.violate(PROP, "record_mutated_after_handover", self._sig(what="Samples"))
                    break
                if cp.ndim == 1:
                    cp = cp.reshape(1, -1)
                k = cp.shape[1]
                if not np.array_equal(cp, chain[:, :k], equal_nan=True):
                    ctx.violate(PROP, "snapshot_not_prefix", self._sig())
            # burn-in / thinning of the record: states b, b+t, b+2t, ... in order
            if n >= 2:
                b_ = ctx.sched.randrange(0, n)
                t_ = ctx.sched.choice([1, 2, 3, 4])
                try:
                    from cuqi.samples import Samples as _Samples
                    bt = np.array(_Samples(chain.copy()).burnthin(b_, t_).samples, float)
                    bt = bt.reshape(1, -1) if bt.ndim == 1 else bt
                    want = chain[:, b_::t_]
                    ctx.count("burnthin_checks")
                    if bt.shape != want.shape or not np.array_equal(bt, want, equal_nan=True):
                        ctx.violate(PROP, "burnthin_of_record", self._sig(), Nb=b_, Nt=t_, got=list(bt.shape), want=list(want.shape))
                except core.SimCrash:
                    raise
            # 8 consecutiveness
            if self.sc.get("cb", True) and self.kind in ("MH", "CWMH", "MALA", "NUTS", "PCN") and n:
                init = as_vec(inc.s.initial_point) if with_w else None
                prev = init
                for i in range(min(n, len(inc.trans_evals))):
                    col = chain[:, i]
                    ok = (prev is not None and bit_equal(prev, col)) or \
                        any(bit_equal(e, col) for e in inc.trans_evals[i])
                    if prev is None:
                        ok = True      # first column of a restarted object: predecessor not in this record
                    if not ok:
                        ctx.violate(PROP, "consecutive", self._sig(), index=i)
                        break
                    prev = col

    def _reinit_check(self, inc, n):
        ctx = self.ctx
        ctx.fault("reinitialize")
        before = chain_of(inc.s)              # (also fills any cache get_samples() may keep)
        if before.size and ctx.sched.random() < 0.5:
            n = before.shape[1]               # a run of the same length as the one recorded before the reset
        core.reset_volatile_globals()
        if self.sc["kind"] in ("MH", "CWMH", "ULA", "MALA", "PCN") and inc.s._is_initialized \
                and ctx.sched.random() < (0.8 if isinstance(self.sc.get("knobs", {}).get("scale"), list) else 0.4):
            # the user re-assigns the step size (a plain number) before resetting: the constructed configuration must
            # still come back
            ctx.fault("assign_scale_before_reinitialize")
            if ctx.sched.random() < 0.6:
                with core.setup_stream(self.setup_seed + 3):
                    inc.s.reinitialize()          # (reset, re-assign, reset again)
            inc.s.scale = 0.37
            if ctx.sched.random() < 0.5:
                inc.s.sample(2)
        pi = np.random.get_state()
        with core.setup_stream(self.setup_seed + 2):
            inc.s.reinitialize()
        inc.s.sample(n)
        A = chain_of(inc.s)
        core.reset_volatile_globals()
        with core.setup_stream(self.setup_seed + 2):
            f, _ = zoo.build_exp_sampler(core.Ctx(0), self.sc, callback=None)
        # the fresh object is constructed under another stream position than the re-initialised one
        # was (constructor draws, e.g. Direct.validate_target) - only initialize() must match
        with core.setup_stream(self.setup_seed + 2):
            f.initialize()
        np.random.set_state(pi)
        f.sample(n)
        B = chain_of(f)
        ctx.count("transitions", n)
        if A.shape != B.shape or not np.array_equal(A, B, equal_nan=True):
            ctx.violate(PROP, "reinitialize", self._sig(), shapeA=list(A.shape), shapeB=list(B.shape))


def gen_exp_case(r, tier):
    sc = zoo.gen_exp_scenario(r)
    sc["iface"] = "exp"
    if sc["kind"] in ("MH", "CWMH", "MALA", "ULA", "NUTS", "PCN") and "initial_point" in sc["knobs"] and r.random() < 0.06 \
            and sc["target"].get("kind") != "post_fd" and not sc["knobs"].get("ip_int") and not sc["knobs"].get("ip_cuqiarray"):
        sc["knobs"]["ip_f32"] = True              # a single-precision start vector (C14 compares like with like, bitwise)
    if sc["target"].get("kind") == "post_mapped" and "initial_point" in sc["knobs"] and r.random() < 0.5:
        sc["knobs"].pop("ip_f32", None)
        sc["knobs"].pop("ip_int", None)
        sc["knobs"]["ip_funvals"] = True
    sc["W"] = r.choice([0, 0, 3, 7, 12])
    if sc["W"] and r.random() < 0.3:
        sc["tune_freq"] = r.choice([0.25, 0.5, 0.34])
    if sc["W"] and r.random() < 0.3:
        sc["W_split"] = r.randint(1, sc["W"] - 1)      # the warm-up is given as two warmup() calls
    sc["cb"] = r.random() < 0.8
    sc["lazy_init"] = r.random() < 0.5
    T = r.randint(1, 14)
    ops = []
    # a composition of T with faults placed inside the workload
    left = T
    has_ck = False
    can_crash_inside = sc["kind"] in ("MH", "CWMH", "ULA", "MALA", "NUTS", "PCN")
    if r.random() < 0.3:
        ops.append({"op": "checkpoint", "path": "ck_a"})       # position 0
        has_ck = True
        if r.random() < 0.4:
            ops.append({"op": "crash_restart", "mode": r.choice(["same_process", "new_process"])})
    while left > 0:
        n = r.randint(1, left)
        x = r.random()
        if x < 0.15 and sc["cb"]:
            ops.append({"op": "checkpoint_in_callback", "k": r.randint(0, n - 1), "path": "ck_a"})
            has_ck = True
        elif x < 0.30 and can_crash_inside and has_ck:
            ops.append({"op": "crash_in_step", "j": r.randint(0, 3 * n)})
        elif x < 0.40 and sc["cb"]:
            ops.append({"op": "callback_raises", "k": r.randint(0, n - 1)})
        elif x < 0.46:
            ops.append({"op": "sample", "n": 0})          # a zero-length run in the middle of the chain changes nothing
        ops.append({"op": "sample", "n": n})
        if r.random() < 0.12:
            ops[-1]["batch"] = r.randint(1, max(1, n))
        left -= n
        # NOTE: no warm-up phase is generated after the sampling phase has begun.  A first version did (it is how the
        # interpreter came to model timelines), and reported that warm-up *resumed after a restore* differs from the
        # uninterrupted run (NUTS: _mu is not a state key; MH/CWMH/PCN: tune() reads the acceptance *history*, which
        # checkpoints do not contain by design).  C14 quantifies over checkpoints in the sampling phase "with and
        # without prior warm-up"; tuning after a restore is outside it, so those reports were false alarms of the check.
        y = r.random()
        if y < 0.45:
            if r.random() < 0.2:
                ops.append({"op": "fs_fault", "at": r.choice(["open", "write", "close"]),
                            "kind": r.choice(["EIO", "ENOSPC"])})
            ops.append({"op": "checkpoint", "path": r.choice(["ck_a", "ck_a", "ck_b"])})
            has_ck = True
        if has_ck and r.random() < 0.45:
            if r.random() < 0.4:
                ops.append({"op": "sample", "n": r.randint(1, 4)})      # in-flight work lost by the crash
            ops.append({"op": "crash_restart", "mode": r.choice(["same_process", "new_process"])})
        if r.random() < 0.3:
            ops.append({"op": "benign", "what": r.choice(["repr", "get_state", "set_state_roundtrip", "set_history_roundtrip",
                                                          "get_history", "get_samples", "save_other"])})
    if r.random() < (0.6 if isinstance(sc["knobs"].get("scale"), list) else 0.3):
        ops.append({"op": "reinit_check", "n": r.randint(1, 5)})
    return {"scenario": sc, "ops": ops}


def enumerate_exp_positions(case, r):
    """Thorough tier: turn a scenario into a complete enumeration of checkpoint positions."""
    return case


# =========================================================================== legacy (stateless) interface

def _ulp_close(a, b):
    """Equality of two chains produced by two separately constructed legacy samplers on the same tape, up to rounding noise.
    The second run exists to reconstruct the states as they were at hand-over, and the property does not promise that two
    sampler objects agree to the last bit: in about one fresh process out of 30 (never in forks of one process) one proposal
    of legacy CWMH.sample_adapt differs by 1 ulp between the first and every later run, depending on where the allocator
    put the arrays (DESIGN 10.4).  Anything a defect produces is many orders of magnitude above this tolerance."""
    a, b = np.asarray(a, float), np.asarray(b, float)
    return a.shape == b.shape and bool(np.allclose(a, b, rtol=1e-9, atol=1e-13, equal_nan=True))


class LegacyRun:
    def __init__(self, ctx, case):
        self.ctx, self.case, self.sc = ctx, case, case["scenario"]
        self.kind = self.sc["kind"]
        self.setup_seed = core.derive_seed("setup", case["seed"], 0)

    def _sig(self, **k):
        d = {"engine": "chain", "iface": "legacy", "kind": self.kind, "method": self.sc["method"]}
        if getattr(self, "alias_shift", None) is not None:
            d["alias_shift"] = self.alias_shift
        d.update(k)
        return d

    def _build(self, ctx, cblog, evals):
        def cb(sample, index):
            cblog.append((index, sample, as_vec(sample), len(evals[0])))
            ctx.log("callback", index, as_vec(sample))
        with core.setup_stream(self.setup_seed):
            s, info = zoo.build_legacy_sampler(ctx, self.sc, callback=cb if self.sc.get("cb", True) else None)
        probes = [p for p in (info.get("logd"), info.get("forward")) if p is not None]
        for p in probes[:1]:
            p.trace = evals[0]
        return s, info

    def run(self):
        ctx, sc = self.ctx, self.sc
        N, Nb, method = sc["N"], sc["Nb"], sc["method"]
        tape0 = np.random.get_state()
        core.reset_volatile_globals()
        cblog, evals = [], [[]]
        s, info = self._build(ctx, cblog, evals)
        x0 = as_vec(s.x0)
        out = getattr(s, method)(N, Nb)
        ctx.count("transitions", N + Nb - 1)
        ctx.nontrivial = True
        # ---- 3 length
        if N + Nb == 1:
            if not bit_equal(out, x0):
                ctx.violate(PROP, "single_state", self._sig())
            return
        chain = np.array(out.samples, float)
        if chain.ndim == 1:
            chain = chain.reshape(1, -1)
        first_copy = chain.copy()
        if chain.shape[1] != N:
            ctx.violate(PROP, "length", self._sig(), got=int(chain.shape[1]), requested=N, Nb=Nb)
            return
        # a second run on the same tape, always observed through a callback (the callback cannot influence
        # the chain): repeatability, and the states as they were at hand-over
        tape_after = np.random.get_state()
        np.random.set_state(tape0)
        core.reset_volatile_globals()
        cblog2, evals2 = [], [[]]
        sc_cb = dict(sc, cb=True)
        saved_sc, self.sc = self.sc, sc_cb
        s2, _ = self._build(core.Ctx(0), cblog2, evals2)
        self.sc = saved_sc
        out2 = getattr(s2, method)(N, Nb)
        c2 = np.array(out2.samples, float).reshape(chain.shape)
        np.random.set_state(tape_after)
        # does "every stored column was overwritten in place by the following transition" explain the record?
        # (signature of the legacy-CWMH aliasing finding; keeps that known finding from masking anything else)
        self.alias_shift = None
        if len(cblog2) == N + Nb - 1:
            by_idx = {c[0]: c[2] for c in cblog2}
            self.alias_shift = bool(all(_ulp_close(chain[:, t], by_idx.get(t + Nb + 1, np.nan)) for t in range(N - 1))
                                    and _ulp_close(chain[:, N - 1], by_idx.get(N + Nb - 1, np.nan)))
        if Nb == 0 and not bit_equal(chain[:, 0], x0):
            ctx.violate(PROP, "starts_with_initial_point", self._sig())
        # ---- 4 callback
        if sc.get("cb", True):
            idx = [c[0] for c in cblog]
            if idx != list(range(1, N + Nb)):
                ctx.violate(PROP, "callback_indices", self._sig(), got=idx[:12], n_got=len(idx), expected_n=N + Nb - 1)
            else:
                for (i, obj, cp, ne) in cblog:
                    if i >= Nb and not bit_equal(cp, chain[:, i - Nb]):
                        ctx.violate(PROP, "callback_state", self._sig(), index=i)
                        break
                for (i, obj, cp, ne) in cblog:
                    if not bit_equal(obj, cp):
                        ctx.violate(PROP, "record_mutated_after_handover", self._sig(what="callback_array"), index=i)
                        break
                # ---- 8 consecutiveness (needs the per-transition evaluation trace)
                if self.kind in ("MH", "CWMH", "MALA", "NUTS", "pCN") and Nb == 0:
                    bounds = [0] + [c[3] for c in cblog]
                    # evals[0][0] is the evaluation of x0 for MH-type; harmless to include
                    for t in range(1, N):
                        col, prev = chain[:, t], chain[:, t - 1]
                        cand = [a[0] for a, _, _ in evals[0][bounds[t - 1]:bounds[t]]]
                        if not (bit_equal(prev, col) or any(bit_equal(e, col) for e in cand)):
                            ctx.violate(PROP, "consecutive", self._sig(), index=t)
                            break
        # ---- repeatability + earlier result untouched by a later call
        # (two separately constructed samplers: compared up to rounding noise, see _ulp_close)
        if not _ulp_close(c2, chain):
            ctx.violate(PROP, "same_tape_same_chain", self._sig())
        elif not np.array_equal(c2, chain, equal_nan=True):
            ctx.count("second_run_differs_in_last_bits")
        s.x0 = chain[:, -1].copy()
        getattr(s, method)(max(N, 10 if method == "sample_adapt" else 2), Nb)
        if not np.array_equal(np.array(out.samples, float).reshape(first_copy.shape), first_copy, equal_nan=True):
            ctx.violate(PROP, "record_mutated_after_handover", self._sig(what="Samples"))


def gen_legacy_case(r, tier):
    sc = zoo.gen_legacy_scenario(r)
    sc["iface"] = "legacy"
    sc["cb"] = r.random() < 0.85
    sc["method"] = r.choice(["sample", "sample", "sample_adapt"])
    if sc["method"] == "sample_adapt" and sc["kind"] in ("MH", "CWMH", "pCN"):
        sc["N"] = r.randint(10, 24)          # Na = int(0.1*N) must be >= 1 (documented use is N >> 10)
    else:
        sc["N"] = r.randint(1, 14)
    if r.random() < 0.08 and sc["kind"] in ("MH", "CWMH", "pCN", "ULA", "MALA", "LinearRTO"):
        sc["N"] = r.randint(190, 420)        # long chains: progress-display arithmetic (Ns//100) changes regime at 200
    sc["Nb"] = r.choice([0, 0, 1, 3, 6])
    if sc["kind"] == "NUTS" and sc["knobs"].get("adapt_step_size") is True and sc["Nb"] == 0:
        sc["Nb"] = 2
    return {"scenario": sc, "ops": []}


# =========================================================================== HybridGibbs / legacy Gibbs

def _joint_chain(js):
    out = {}
    for k in js:
        a = np.array(js[k].samples, float)
        out[k] = a.reshape(1, -1) if a.ndim == 1 else a
    return out


class HGibbsRun:
    def __init__(self, ctx, case):
        self.ctx, self.case, self.sc = ctx, case, case["scenario"]
        self.setup_seed = core.derive_seed("setup", case["seed"], 0)

    def _sig(self, **k):
        d = {"engine": "chain", "iface": "hgibbs",
             "strategy": "/".join("%s:%s" % (b, st["kind"]) for b, st in sorted(self.sc["strategy"].items()))}
        d.update(k)
        return d

    def _build(self):
        with core.setup_stream(self.setup_seed):
            g, J = zoo.build_hybrid_gibbs(self.sc)
        return g

    def run(self):
        ctx, sc = self.ctx, self.sc
        tape0 = np.random.get_state()
        core.reset_volatile_globals()         # (run and reference run both start from the state a new process starts with)
        g = self._build()
        W = sc["W"]
        # what every sweep produced, observed at the block samplers themselves (the recorded chain is compared with it)
        produced = []
        sweep = g.step

        def step(*a, **k):
            out = sweep(*a, **k)
            produced.append({b: np.array(np.ravel(np.asarray(smp.current_point, float))) for b, smp in g.samplers.items()})
            return out
        g.step = step
        if W:
            g.warmup(W)
        total = 0
        snaps = []
        for op in self.case["ops"]:
            ctx.log("op", op["op"], {k: v for k, v in op.items() if k != "op"})
            if op["op"] == "sample":
                g.sample(int(op["n"]))
                total += int(op["n"])
            elif op["op"] == "benign":
                if W + total:
                    js = g.get_samples()
                    snaps.append((js, {k: v.copy() for k, v in _joint_chain(js).items()}))
        if len([o for o in self.case["ops"] if o["op"] == "sample"]) > 1:
            ctx.nontrivial = True
            ctx.fault("split")
        ctx.count("transitions", (W + total) * len(sc["strategy"]))
        if W + total == 0:
            return
        got = _joint_chain(g.get_samples())
        np.random.set_state(tape0)
        core.reset_volatile_globals()
        h = self._build()
        if W:
            h.warmup(W)
        if total:
            h.sample(total)
        ref = _joint_chain(h.get_samples())
        for k in sorted(ref):
            if got[k].shape[1] != W + total:
                ctx.violate(PROP, "length", self._sig(), var=k, got=int(got[k].shape[1]), expected=W + total)
            elif not np.array_equal(got[k], ref[k], equal_nan=True):
                first = int(np.argmax(np.any(got[k] != ref[k], axis=0)))
                ctx.violate(PROP, "continuity", self._sig(), var=k, first_bad_column=first, W=W)
                break
        if len(produced) == W + total:
            for k in sorted(got):
                if got[k].shape[1] != W + total:
                    continue
                for i_, pr in enumerate(produced):
                    if k in pr and not np.array_equal(np.ravel(got[k][:, i_]), pr[k], equal_nan=True):
                        ctx.violate(PROP, "recorded_entry_is_not_the_state_produced", self._sig(), var=k, index=i_)
                        break
        else:
            ctx.undecided("hybrid Gibbs sweeps observed %d, recorded %d" % (len(produced), W + total))
        # burn-in / thinning of the joint record: states b, b+t, b+2t, ... of every block, in order
        if W + total >= 2:
            b_ = ctx.sched.randrange(0, W + total)
            t_ = ctx.sched.choice([1, 2, 3, 4])
            try:
                bt = _joint_chain(g.get_samples().burnthin(b_, t_))
            except Exception as e:
                ctx.violate(PROP, "burnthin", self._sig(what="raised"), err=type(e).__name__)
                bt = None
            if bt is not None:
                for k in sorted(got):
                    want = got[k][:, b_::t_]
                    if bt[k].shape != want.shape or not np.array_equal(bt[k], want, equal_nan=True):
                        ctx.violate(PROP, "burnthin", self._sig(what="JointSamples"), var=k, Nb=b_, Nt=t_,
                                    got=list(bt[k].shape), expected=list(want.shape))
                        break
        for js, cps in snaps:
            for k, cp in cps.items():
                now = _joint_chain(js)[k]
                if not np.array_equal(now, cp, equal_nan=True):
                    ctx.violate(PROP, "record_mutated_after_handover", self._sig(what="JointSamples"))
                elif not np.array_equal(cp, got[k][:, :cp.shape[1]], equal_nan=True):
                    ctx.violate(PROP, "snapshot_not_prefix", self._sig())


def _compose(r, T):
    ops, left = [], T
    while left > 0:
        n = r.randint(1, left)
        ops.append({"op": "sample", "n": n})
        left -= n
        if r.random() < 0.3:
            ops.append({"op": "benign", "what": "get_samples"})
    return ops


def gen_hgibbs_case(r, tier):
    sc = zoo.gen_gibbs_scenario(r, legacy=False)
    sc["iface"] = "hgibbs"
    sc["W"] = r.choice([0, 0, 2, 5])
    return {"scenario": sc, "ops": _compose(r, r.randint(1, 8))}


class LGibbsRun:
    def __init__(self, ctx, case):
        self.ctx, self.case, self.sc = ctx, case, case["scenario"]

    def _sig(self, **k):
        d = {"engine": "chain", "iface": "lgibbs",
             "strategy": "/".join("%s:%s" % (b, st["kind"]) for b, st in sorted(self.sc["strategy"].items()))}
        d.update(k)
        return d

    def run(self):
        ctx, sc = self.ctx, self.sc
        tape0 = np.random.get_state()
        g, _ = zoo.build_legacy_gibbs(sc)
        Nb = sc["Nb"]
        total = 0
        outs = []
        first = True
        for op in self.case["ops"]:
            if op["op"] == "refused_warmup" and not first and Nb:
                # a second request for a warm-up phase is refused by the library; the caller catches the error and goes on
                ctx.fault("refused_call_then_continue")
                try:
                    g.sample(int(op["n"]), Nb)
                    refused = False
                except ValueError:
                    refused = True
                if not refused:
                    ctx.undecided("second warm-up request was not refused")
                    return
                continue
            if op["op"] != "sample":
                continue
            ctx.log("op", "sample", op["n"])
            n = int(op["n"])
            res = g.sample(n, Nb) if first else g.sample(n)
            first = False
            total += n
            outs.append((res, {k: np.array(v.samples, float).copy() for k, v in res.items()}, total))
        if len(outs) > 1:
            ctx.nontrivial = True
            ctx.fault("split")
        if not outs:
            return
        ctx.count("transitions", (Nb + total) * len(sc["strategy"]))
        np.random.set_state(tape0)
        h, _ = zoo.build_legacy_gibbs(sc)
        ref = {k: np.array(v.samples, float) for k, v in h.sample(total, Nb).items()}
        last = outs[-1][1]
        for k in sorted(ref):
            a = last[k].reshape(ref[k].shape[0], -1) if last[k].ndim == 1 else last[k]
            if a.shape[1] != total:
                ctx.violate(PROP, "length", self._sig(), var=k, got=int(a.shape[1]), expected=total)
            elif not np.array_equal(a, ref[k].reshape(a.shape), equal_nan=True):
                ctx.violate(PROP, "continuity", self._sig(), var=k,
                            first_bad_column=int(np.argmax(np.any(a != ref[k].reshape(a.shape), axis=0))), Nb=Nb)
                break
        for res, cps, tot in outs:
            for k, cp in cps.items():
                now = np.array(res[k].samples, float)
                if not np.array_equal(now, cp, equal_nan=True):
                    ctx.violate(PROP, "record_mutated_after_handover", self._sig(what="Samples"))
                    break
                if (cp.reshape(ref[k].shape[0], -1)).shape[1] != tot:
                    ctx.violate(PROP, "length", self._sig(), var=k, call_total=tot)
                    break


def gen_lgibbs_case(r, tier):
    sc = zoo.gen_gibbs_scenario(r, legacy=True)
    sc["iface"] = "lgibbs"
    sc["Nb"] = r.choice([0, 0, 2, 4])
    ops = [o for o in _compose(r, r.randint(1, 8)) if o["op"] == "sample"]
    if sc["Nb"] and len(ops) > 1 and r.random() < 0.5:
        ops.insert(r.randint(1, len(ops) - 1), {"op": "refused_warmup", "n": r.randint(1, 5)})
    return {"scenario": sc, "ops": ops}



# =========================================================================== high-level interface (BayesianProblem)

class ProblemRun:
    """C14 through the interface most users take: BayesianProblem(...).sample_posterior(Ns, Nb, callback, experimental).
    The returned chain has exactly Ns entries; the callback is called once per transition with consecutive indices, and the
    entry k of the returned chain is the state the callback was handed at index Nb+k (Nb transitions are discarded, not
    more, not fewer; Nb=None means 20% of Ns).  The direct sampler of small linear-Gaussian problems makes Ns independent
    draws, calls back Ns times and ignores Nb."""

    def __init__(self, ctx, case):
        self.ctx, self.case, self.sc = ctx, case, case["scenario"]

    def _sig(self, **k):
        d = {"engine": "chain", "iface": "problem", "prior": self.sc["prior"], "model": self.sc["model"],
             "experimental": bool(self.sc["experimental"]), "Nb": "None" if self.sc["Nb"] is None else ("0" if self.sc["Nb"] == 0 else "k")}
        d.update(k)
        return d

    def run(self):
        from cuqi.problem import BayesianProblem
        from cuqi.distribution import Gaussian, GMRF, LMRF
        from cuqi.model import LinearModel, Model
        ctx, sc = self.ctx, self.sc
        rs = np.random.RandomState(sc["zseed"])
        n = sc["n"]
        A = rs.randn(n + 1, n)
        data = rs.randn(n + 1)
        x = {"gauss": lambda: Gaussian(np.zeros(n), 0.8, name="x"), "gmrf": lambda: GMRF(np.zeros(n), 2.0, name="x"),
             "lmrf": lambda: LMRF(0, 0.5, geometry=n, name="x")}[sc["prior"]]()
        if sc["model"] == "lin":
            M = LinearModel(A)
        elif sc["model"] == "nonlin_grad":
            M = Model(lambda x: np.tanh(A @ x), range_geometry=n + 1, domain_geometry=n,
                      jacobian=lambda x: (1 - np.tanh(A @ x) ** 2)[:, None] * A)
        else:
            M = Model(lambda x: np.tanh(A @ x), range_geometry=n + 1, domain_geometry=n)
        y = Gaussian(M(x), 0.5, name="y")
        BP = BayesianProblem(y, x).set_data(y=data)
        log = []

        def cb(sample, index):
            log.append((int(index), as_vec(sample).copy()))
            ctx.log("callback", int(index), as_vec(sample))
        Ns, Nb = int(sc["Ns"]), sc["Nb"]
        try:
            S = BP.sample_posterior(Ns, Nb, callback=cb, experimental=bool(sc["experimental"]))
        except core.SimCrash:
            raise
        except Exception as e:
            # the automatic choice does not serve every configuration (legacy NUTS refuses adaptation without burn-in, legacy
            # pCN needs a Gaussian prior, legacy adaptation divides by zero for very short runs): availability is not C14
            ctx.count("problem_run_not_served_" + type(e).__name__)
            return
        ctx.nontrivial = True
        ctx.fault("sampler_chosen_automatically")
        got = np.array(S.samples, float)
        got = got.reshape(n, -1) if got.ndim == 1 else got
        ctx.count("transitions", len(log))
        if got.shape[1] != Ns:
            ctx.violate(PROP, "length", self._sig(), got=int(got.shape[1]), expected=Ns)
            return
        idx = [i for i, _ in log]
        if idx != list(range(idx[0], idx[0] + len(idx))) if idx else True:
            ctx.violate(PROP, "callback_indices", self._sig(), got=idx[:12])
            return
        nb = int(0.2 * Ns) if Nb is None else int(Nb)
        states = dict(log)
        direct = idx and idx[0] == 0 and len(idx) == Ns and all(bit_equal(states[k], got[:, k]) for k in range(Ns))
        if direct and (nb == 0 or sc["prior"] == "gauss" and sc["model"] == "lin"):
            ctx.count("problem_run_ok")
            return
        # a chain: one callback per transition, indices end at Ns+Nb-1, Nb transitions discarded
        if not idx or idx[-1] != Ns + nb - 1 or idx[0] not in (0, 1):
            ctx.violate(PROP, "callback_indices", self._sig(), first=idx[:1], last=idx[-1:], expected_last=Ns + nb - 1, n=len(idx))
            return
        for k in range(Ns):
            if nb + k in states and not bit_equal(states[nb + k], got[:, k]):
                ctx.violate(PROP, "callback_state", self._sig(), index=nb + k, entry=k)
                return
        ctx.count("problem_run_ok")


def gen_problem_case(r, tier):
    prior = r.choice(["gauss", "gmrf", "lmrf"])
    model = "lin" if prior == "lmrf" else r.choice(["lin", "lin", "nonlin_grad", "nonlin"])
    sc = {"iface": "problem", "prior": prior, "model": model, "n": r.randint(2, 5), "zseed": r.randrange(1, 10 ** 6),
          "Ns": r.randint(10, 16), "Nb": r.choice([0, 0, None, 1, 2, 4]), "experimental": r.random() < 0.5}
    return {"scenario": sc, "ops": []}

# =========================================================================== engine

class ChainEngine(EngineBase):
    name = "chain"
    real = ["cuqi.experimental.mcmc.{MH,CWMH,PCN,ULA,MALA,NUTS,LinearRTO,RegularizedLinearRTO,UGLA,Conjugate,"
            "ConjugateApprox,Direct}: step/tune/warmup/sample/get_state/set_state/get_history/"
            "save_checkpoint/load_checkpoint/reinitialize/get_samples (unmodified)",
            "cuqi.samples.Samples", "cuqi.solver.CGLS/FISTA", "cuqi.distribution.*, cuqi.model.* used by the targets"]
    stub = ["global numpy.random tape (seeded, logged wrappers)", "in-memory file system behind "
            "cuqi.experimental.mcmc._sampler.open", "tqdm progress bars (inert)", "stdout (captured)",
            "user callables: target logd/gradient, forward/adjoint, callback (logged, fault-injectable probes)"]
    assumptions = ["the tape position is persisted next to the checkpoint by the caller (as the repository's own "
                   "checkpoint test re-seeds after load)",
                   "constructor/initialisation draws of a re-built sampler come from a separate set-up stream",
                   "bitwise comparison is sound because both sides execute the same floating-point program"]
    rule = ("chain: scenario (interface, sampler kind, target recipe, knobs, warm-up W, callback, lazy init) and an "
            "operation list over sample(n)/checkpoint/checkpoint_in_callback/crash_restart(same|new process)/"
            "crash_in_step/fs_fault/benign/reinit_check are drawn from the scheduler stream")

    def gen(self, r, tier):
        x = r.random()
        if (tier == "thorough" and x < 0.25) or (tier != "thorough" and x < 0.04):
            c = gen_exp_case(r, tier)
            c["ops"] = []
            c["enumerate"] = r.randint(1, 10) if tier == "thorough" else r.randint(1, 4)
            return c
        if x < 0.55:
            return gen_exp_case(r, tier)
        if x < 0.80:
            return gen_legacy_case(r, tier)
        if x < 0.90:
            return gen_hgibbs_case(r, tier)
        if x < 0.95:
            return gen_problem_case(r, tier)
        return gen_lgibbs_case(r, tier)

    def run(self, case, ctx):
        sim = core.SimRandom(ctx)
        sim.install()
        try:
            iface = case["scenario"].get("iface", "exp")
            runner_cls = {"exp": ExpRun, "legacy": LegacyRun, "hgibbs": HGibbsRun, "lgibbs": LGibbsRun, "problem": ProblemRun}[iface]
            if case.get("enumerate"):
                # complete fault enumeration inside the scenario: every checkpoint position 0..T x both restart modes
                T = int(case["enumerate"])
                tape0 = np.random.get_state()
                for c in range(T + 1):
                    for mode in ("same_process", "new_process"):
                        ops = ([{"op": "sample", "n": c}] if c else []) + [{"op": "checkpoint", "path": "ck_a"}]
                        if T - c:
                            ops.append({"op": "sample", "n": T - c})
                        ops.append({"op": "crash_restart", "mode": mode})
                        if T - c:
                            ops.append({"op": "sample", "n": T - c})
                        np.random.set_state(tape0)
                        ctx.count("enumerated_crash_points")
                        if c == T:
                            ctx.hit("checkpoint_at_T")
                        ExpRun(ctx, dict(case, ops=ops)).run()
            else:
                runner_cls(ctx, case).run()
        except NameError as e:
            # the library's own guard: ULA / NUTS raise NameError('NaN potential func ...') when the chain has blown up
            # numerically (e.g. an unadjusted Langevin step that is too large for the target).  Not a C14 matter.
            if "NaN potential" not in str(e):
                raise
            ctx.count("run_aborted_by_library_nan_guard")
        finally:
            sim.uninstall()

    def shrink(self, case):
        import json
        sc = case["scenario"]
        for key in ("N", "Nb"):
            if isinstance(sc.get(key), int) and sc[key] > (1 if key == "N" else 0):
                lo = 10 if (key == "N" and sc.get("method") == "sample_adapt") else (1 if key == "N" else 0)
                for v in sorted({lo, sc[key] // 2, sc[key] - 1}):
                    if lo <= v < sc[key]:
                        c = json.loads(json.dumps(case)); c["scenario"][key] = v; yield c
        # smaller warm-up, no callback faults, smaller dimension, halve sample counts
        if sc.get("W", 0) > 0:
            c = json.loads(json.dumps(case)); c["scenario"]["W"] = 0; yield c
        for i, op in enumerate(case["ops"]):
            if op["op"] == "sample" and op["n"] > 1:
                c = json.loads(json.dumps(case)); c["ops"][i]["n"] = op["n"] // 2; yield c
                c = json.loads(json.dumps(case)); c["ops"][i]["n"] = op["n"] - 1; yield c
        if sc.get("lazy_init"):
            c = json.loads(json.dumps(case)); c["scenario"]["lazy_init"] = False; yield c
