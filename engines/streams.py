"""Engine `streams` (C05, random-stream clauses only).

Two logical clients share one process: client **A** draws with its *own* generator g
(`D.sample(N, rng=g)`, legacy `ULA/MALA/UGLA(rng=g)`), client **B** consumes the *global* stream
(an experimental sampler stepping, a distribution sampled without `rng`).  The scheduler
interleaves their operations.  Oracles: each client's outputs equal its solo run from the same
initial stream state; an A-op leaves the global state untouched and a B-op leaves g untouched;
repeating an A-op from a restored g-state repeats the output; one draw is an array carrying the
distribution's geometry, several draws a sample collection with one column per draw; a
conditional distribution refuses to sample and consumes nothing.

Not decided here (DESIGN.md 3.6/4): that the draws follow the object's own density.
"""
import numpy as np
import scipy.sparse as sps

from sim import core, zoo
from sim.core import as_vec, bit_equal, rs_digest
from .chain import EngineBase

PROP = "C05"

FAMILIES = ["gauss_cov_scalar", "gauss_cov_vec", "gauss_cov_full", "gauss_prec_full", "gauss_sqrtcov",
            "gauss_sqrtprec", "gauss_sparse_cov", "gauss_sparse_prec", "gmrf_zero", "gmrf_periodic",
            "gmrf_neumann", "gmrf2d", "normal", "gamma", "invgamma", "beta", "laplace", "lognormal",
            "uniform", "cauchy", "mhn", "gauss_sqrtprec_lower", "gauss_sqrtprec_full", "gauss_sqrtcov_upper",
            "gauss_sqrtcov_full", "gauss_prec_vec", "gauss_geom_cont1d", "gauss_geom_image2d", "normal_geom_cont1d",
            "gamma_geom_discrete", "user_defined_buffer", "gauss_scalar_mean_geom", "gauss_scalar_all", "normal_scalar_geom", "gamma_scalar_geom",
            "laplace_scalar_geom", "uniform_scalar_geom", "gauss_sqrtcov_scalar", "gauss_sqrtcov_vec", "gauss_sqrtcov_diagmat",
            "gauss_sqrtprec_vec", "gauss_sqrtprec_diagmat", "gauss_sqrtprec_scalar", "gauss_cov_diagmat", "gauss_prec_scalar",
            "gauss_sparse_cov_tridiag", "gauss_sparse_prec_tridiag", "gauss_sparse_sqrtprec_diag", "gmrf_order0", "gmrf_order2", "gmrf2d_order0", "gmrf2d_order2", "gauss_sqrtprec_full_forder", "gauss_sqrtprec_sparse_bidiag", "gauss_mean_cuqiarray", "gmrf_mean_cuqiarray",
            "user_defined_gauss", "gauss_cov_full_hugescale", "gauss_cov_full_badscale", "normal_scalar_geom_cont2d", "gamma_scalar_geom_cont2d", "user_defined_row"]


def build_dist(rec):
    import cuqi.distribution as D
    fam, n, z = rec["fam"], rec["n"], rec["zseed"]
    rs = np.random.RandomState(z)
    mean = rs.randn(n)
    B = rs.randn(n, n) * 0.4 / max(1.0, n / 5.0) ** 0.5          # keeps the large-dimension factors well conditioned
    C = np.eye(n) + B @ B.T
    if fam == "gauss_cov_scalar":
        return D.Gaussian(mean, 0.7)
    if fam == "gauss_cov_vec":
        return D.Gaussian(mean, np.linspace(0.5, 2.0, n))
    if fam == "gauss_cov_full":
        return D.Gaussian(mean, C)
    if fam == "gauss_cov_full_hugescale":
        # a well-conditioned full covariance in units that make every entry huge (or tiny): nothing about a draw may
        # depend on the absolute size of the entries
        return D.Gaussian(mean, C * 10.0 ** [16, -16, 18, 12][z % 4])
    if fam == "gauss_cov_full_badscale":
        # two correlated variables measured in very different units (standard deviations 1e-5 and 1e3)
        S_ = np.diag([1e-5, 1e3])
        rho = [0.8, -0.6, 0.3, -0.9][z % 4]
        return D.Gaussian(np.zeros(2), S_ @ np.array([[1.0, rho], [rho, 1.0]]) @ S_)
    if fam in ("normal_scalar_geom_cont2d", "gamma_scalar_geom_cont2d"):
        # scalar parameters spread over a 2-D grid geometry; the grid of that geometry may be refined later ("regrid")
        import cuqi
        G2 = cuqi.geometry.Continuous2D((3, 3))
        return D.Normal(0.3, 0.8, geometry=G2) if fam.startswith("normal") else D.Gamma(2.0, 1.5, geometry=G2)
    if fam == "user_defined_row":
        # a user sampler that returns ONE draw as a row of shape (1, dim) (what multivariate_normal(mean, cov, 1) gives)
        st_ = np.random.RandomState(z)
        d_ = max(n, 2)
        return D.UserDefinedDistribution(dim=d_, logpdf_func=lambda x: float(-0.5 * np.sum(np.asarray(x) ** 2)),
                                         sample_func=lambda: st_.randn(1, d_))
    if fam == "gauss_prec_full":
        return D.Gaussian(mean, prec=C)
    if fam == "gauss_sqrtcov":
        return D.Gaussian(mean, sqrtcov=np.eye(n) + np.tril(B))
    if fam == "gauss_sqrtprec":
        return D.Gaussian(mean, sqrtprec=np.eye(n) + np.triu(B))
    if fam == "gauss_sqrtprec_lower":
        return D.Gaussian(mean, sqrtprec=np.eye(n) + np.tril(B))
    if fam == "gauss_sqrtprec_full":
        return D.Gaussian(mean, sqrtprec=np.eye(n) + B / max(1.0, n / 20.0) ** 0.5)    # (non-symmetric: spectral radius of B kept < 1/2)
    if fam == "gauss_sqrtcov_upper":
        return D.Gaussian(mean, sqrtcov=np.eye(n) + np.triu(B))
    if fam == "gauss_sqrtcov_full":
        return D.Gaussian(mean, sqrtcov=np.eye(n) + B / max(1.0, n / 20.0) ** 0.5)
    if fam == "gauss_geom_cont1d":
        import cuqi
        return D.Gaussian(mean, 0.7, geometry=cuqi.geometry.Continuous1D(np.linspace(0, 1, n)))
    if fam == "gauss_geom_image2d":
        import cuqi
        return D.Gaussian(np.random.RandomState(z).randn(9), np.linspace(0.5, 2.0, 9), geometry=cuqi.geometry.Image2D((3, 3)))
    if fam == "normal_geom_cont1d":
        import cuqi
        return D.Normal(mean, 0.6, geometry=cuqi.geometry.Continuous1D(np.linspace(0, 1, n)))
    if fam == "gamma_geom_discrete":
        import cuqi
        return D.Gamma(np.linspace(1.0, 3.0, n), 1.5, geometry=cuqi.geometry.Discrete(["v%d" % i for i in range(n)]))
    if fam in ("gmrf_order0", "gmrf_order2"):
        n3 = max(n, 4)
        return D.GMRF(np.random.RandomState(z).randn(n3), 1.7, bc_type="zero", order=int(fam[-1]))
    if fam in ("gmrf2d_order0", "gmrf2d_order2"):
        import cuqi
        return D.GMRF(np.zeros(16), 1.3, bc_type="zero", order=int(fam[-1]), geometry=cuqi.geometry.Image2D((4, 4)))
    if fam == "gauss_sqrtcov_scalar":
        return D.Gaussian(mean, sqrtcov=0.8)
    if fam == "gauss_sqrtcov_vec":
        return D.Gaussian(mean, sqrtcov=np.linspace(0.5, 1.5, n))
    if fam == "gauss_sqrtcov_diagmat":
        return D.Gaussian(mean, sqrtcov=np.diag(np.linspace(0.5, 1.5, n)))
    if fam == "gauss_sqrtprec_vec":
        return D.Gaussian(mean, sqrtprec=np.linspace(0.5, 1.5, n))
    if fam == "gauss_sqrtprec_diagmat":
        return D.Gaussian(mean, sqrtprec=np.diag(np.linspace(0.5, 1.5, n)))
    if fam == "gauss_sqrtprec_scalar":
        return D.Gaussian(mean, sqrtprec=1.3)
    if fam == "gauss_cov_diagmat":
        return D.Gaussian(mean, np.diag(np.linspace(0.5, 2.0, n)))
    if fam == "gauss_prec_scalar":
        return D.Gaussian(mean, prec=1.7)
    if fam in ("gauss_sparse_cov_tridiag", "gauss_sparse_prec_tridiag"):
        n2 = max(n, 3)
        T = sps.diags([2.0 * np.ones(n2), -0.6 * np.ones(n2 - 1), -0.6 * np.ones(n2 - 1)], [0, 1, -1]).tocsc()
        mu = np.random.RandomState(z).randn(n2)
        return D.Gaussian(mu, T) if fam.endswith("cov_tridiag") else D.Gaussian(mu, prec=T)
    if fam == "gauss_sparse_sqrtprec_diag":
        n2 = max(n, 2)
        return D.Gaussian(np.random.RandomState(z).randn(n2), sqrtprec=sps.diags(np.linspace(0.5, 1.5, n2)))
    if fam == "user_defined_buffer":
        # a user-supplied sampler that refreshes and returns ONE pre-allocated buffer (legal): every draw handed out must
        # still be its own value afterwards
        buf = np.zeros(max(n, 2))
        st_ = np.random.RandomState(z)

        def sample_func():
            buf[:] = st_.randn(buf.size)
            return buf
        return D.UserDefinedDistribution(dim=buf.size, logpdf_func=lambda x: float(-0.5 * np.sum(np.asarray(x) ** 2)),
                                         sample_func=sample_func)
    if fam == "gauss_scalar_mean_geom":
        return D.Gaussian(0.5, np.linspace(0.5, 2.0, n), geometry=n)        # scalar mean broadcast over the geometry
    if fam == "gauss_scalar_all":
        return D.Gaussian(0.0, 1.3, geometry=n)
    if fam == "normal_scalar_geom":
        return D.Normal(0.2, 0.7, geometry=n)
    if fam == "gamma_scalar_geom":
        return D.Gamma(2.0, 1.5, geometry=n)
    if fam == "laplace_scalar_geom":
        return D.Laplace(0.1, 0.8, geometry=n)
    if fam == "uniform_scalar_geom":
        return D.Uniform(-1.0, 2.0, geometry=n)
    if fam == "gauss_sqrtprec_full_forder":
        return D.Gaussian(mean, sqrtprec=np.asfortranarray(np.eye(n) + 0.5 * (B + B.T)))
    if fam == "gauss_sqrtprec_sparse_bidiag":
        n2 = max(n, 2)
        R = sps.spdiags([np.linspace(1, 2, n2), 0.3 * np.ones(n2)], [0, 1], n2, n2)      # DIA storage, not diagonal
        return D.Gaussian(np.random.RandomState(z).randn(n2), sqrtprec=R)
    if fam in ("gauss_mean_cuqiarray", "gmrf_mean_cuqiarray"):
        import cuqi
        from cuqi.array import CUQIarray
        mu = CUQIarray(np.random.RandomState(z).randn(9), geometry=cuqi.geometry.Continuous1D(np.linspace(0, 1, 9)))
        if fam.startswith("gauss"):
            return D.Gaussian(mu, 0.5, geometry=cuqi.geometry.Image2D((3, 3)))      # a parameter carrying another geometry
        return D.GMRF(mu, 2.0, geometry=cuqi.geometry.Image2D((3, 3)))
    if fam == "gauss_prec_vec":
        return D.Gaussian(mean, prec=np.linspace(0.5, 2.0, n))
    if fam == "gauss_sparse_cov":
        return D.Gaussian(mean, sps.diags(np.linspace(0.5, 2.0, n)))
    if fam == "gauss_sparse_prec":
        return D.Gaussian(mean, prec=sps.diags(np.linspace(0.5, 2.0, n)))
    if fam in ("gmrf_zero", "gmrf_periodic", "gmrf_neumann"):
        n = max(n, 3)
        return D.GMRF(np.random.RandomState(z).randn(n), 2.5, bc_type=fam.split("_")[1])
    if fam == "gmrf2d":
        import cuqi
        return D.GMRF(np.zeros(9), 1.5, bc_type=rec.get("bc", "zero"), geometry=cuqi.geometry.Image2D((3, 3)))
    if fam == "normal":
        return D.Normal(mean, np.linspace(0.3, 1.2, n))
    if fam == "gamma":
        return D.Gamma(np.linspace(1.0, 3.0, n), np.linspace(0.5, 2.0, n))
    if fam == "invgamma":
        return D.InverseGamma(np.linspace(2.0, 3.0, n), (z % 3) * 0.7 * np.ones(n), np.linspace(0.5, 2.0, n))     # shifted for 2 of 3
    if fam == "beta":
        return D.Beta(np.linspace(0.5, 3.0, n), np.linspace(1.0, 2.0, n))
    if fam == "laplace":
        return D.Laplace(mean, np.linspace(0.5, 2.0, n))
    if fam == "lognormal":
        return D.Lognormal(mean * 0.3, 0.4 * np.eye(n))
    if fam == "uniform":
        return D.Uniform(mean - 1.0, mean + np.linspace(0.5, 2.0, n))
    if fam == "cauchy":
        return D.Cauchy(mean, np.linspace(0.5, 2.0, n))
    if fam == "mhn":
        return D.ModifiedHalfNormal(2.0 + rec["zseed"] % 3, 1.5, -0.5 + (rec["zseed"] % 5) * 0.5)
    if fam == "user_defined_gauss":
        g = D.Gaussian(mean, 0.7)
        return g          # placeholder kept simple: UserDefinedDistribution._sample ignores rng by design (TODO upstream)
    raise ValueError(fam)


SETTABLE = {"gauss_cov_scalar": "cov", "gauss_cov_vec": "cov", "normal": "std", "gamma": "rate", "laplace": "scale",
            "lognormal": "mean"}


def spec_of(rec):
    """(class name, constructor kwargs) for the families whose parameters the engine re-assigns."""
    fam, n, z = rec["fam"], rec["n"], rec["zseed"]
    mean = np.random.RandomState(z).randn(n)
    if fam == "gauss_cov_scalar":
        return ["Gaussian", {"mean": mean, "cov": 0.7}]
    if fam == "gauss_cov_vec":
        return ["Gaussian", {"mean": mean, "cov": np.linspace(0.5, 2.0, n)}]
    if fam == "normal":
        return ["Normal", {"mean": mean, "std": np.linspace(0.3, 1.2, n)}]
    if fam == "gamma":
        return ["Gamma", {"shape": np.linspace(1.0, 3.0, n), "rate": np.linspace(0.5, 2.0, n)}]
    if fam == "laplace":
        return ["Laplace", {"location": mean, "scale": np.linspace(0.5, 2.0, n)}]
    if fam == "lognormal":
        return ["Lognormal", {"mean": mean * 0.3, "cov": 0.4 * np.eye(n)}]
    return None


def from_spec(spec):
    import cuqi.distribution as D
    return getattr(D, spec[0])(**spec[1])


def named_callable(arg, n, vec):
    """callable hyper-parameter whose argument is literally called `arg`"""
    if arg == "s":
        def f(s): return s * (np.ones(n) if vec else 1.0)
    else:
        def f(t): return t * (np.ones(n) if vec else 1.0)
    return f


class LoggedRS(np.random.RandomState):
    """Caller-owned generator that remembers the standard-normal blocks it handed out."""
    def __init__(self, seed):
        super().__init__(seed)
        self.normals = []

    _depth = 0

    def _rec(self, fn, *a, **k):
        # numpy's randn() may itself dispatch to self.standard_normal(): record only the outermost call
        self._depth += 1
        try:
            v = fn(*a, **k)
        finally:
            self._depth -= 1
        if self._depth == 0:
            self.normals.append(np.array(v, copy=True))
        return v

    def randn(self, *a):
        return self._rec(super().randn, *a)

    def standard_normal(self, size=None):
        return self._rec(super().standard_normal, size)


GAUSS_MECH = ("gauss_", "gmrf_zero", "gmrf2d", "gmrf_order", "gmrf_mean_cuqiarray", "lognormal")


def out_array(o):
    if hasattr(o, "samples"):
        return np.array(o.samples, float)
    return np.array(as_vec(o), float)


class StreamsRun:
    def __init__(self, ctx, case):
        self.ctx, self.case, self.sc = ctx, case, case["scenario"]

    def sig(self, **k):
        d = {"engine": "streams"}
        d.update(k)
        return d

    # ---- clients --------------------------------------------------------------------------
    def a_op(self, op, dists, g, legacy_cache):
        """Execute one A operation with generator g; returns ndarray output."""
        if op["op"] == "a_sample":
            obj = dists[op["d"]].sample(op["N"], rng=g)
            arr = out_array(obj)
            if getattr(self, "keep_handed_out", None) is not None:
                self.keep_handed_out.append((obj, arr.copy(), self.sc["dists"][op["d"]]["fam"]))
            return arr, None
        if op["op"] == "a_legacy":
            import cuqi.sampler as LS
            key = op["kind"]
            with core.setup_stream(12345):
                if key == "UGLA":
                    post, _ = zoo.lin_posterior(core.Ctx(0), {"dim": 3, "zseed": self.sc["zseed"], "prior": "lmrf", "m": 4})
                    s = LS.UGLA(post, rng=g, maxit=10)
                else:
                    t, _ = zoo.ud_target(core.Ctx(0), {"kind": "gauss", "dim": 2, "zseed": self.sc["zseed"]})
                    s = getattr(LS, key)(t, scale=0.1, x0=np.zeros(2), rng=g)
            return out_array(s.sample(op["N"])), None
        raise ValueError(op)

    def b_make(self):
        import cuqi.experimental.mcmc as M
        with core.setup_stream(777):
            t, _ = zoo.ud_target(core.Ctx(0), {"kind": "quartic", "dim": 2, "zseed": self.sc["zseed"]}, with_grad=False)
            s = M.MH(t, scale=0.7, initial_point=np.zeros(2))
            s.initialize()
        return s

    def b_op(self, op, dists, bs):
        if op["op"] == "b_sample":
            return out_array(dists[op["d"]].sample(op["N"]))
        if op["op"] == "b_mcmc":
            n0 = len(bs._samples)
            bs.sample(op["N"])
            a = np.array(bs.get_samples().samples, float)
            return a[:, n0:]
        raise ValueError(op)

    # ---- run --------------------------------------------------------------------------------
    def run(self):
        ctx, sc = self.ctx, self.sc
        dists = [build_dist(r) for r in sc["dists"]]
        # the solo runs use the *same* distribution objects: sampling does not alter them (C11), whereas a
        # re-built GMRF differs by an ulp (its constructor runs ARPACK with a hidden random start vector)
        twins = list(dists)
        self.specs = {i: spec_of(r) for i, r in enumerate(sc["dists"]) if spec_of(r) is not None}
        self.touched = {}
        self.conditional = {}
        import copy as _copy
        for i_, sp_ in self.specs.items():
            # families whose parameters may be re-assigned later: their solo runs use an untouched twin built from the
            # same constructor arguments (these constructors are deterministic)
            twins[i_] = from_spec(_copy.deepcopy(sp_))
        g = LoggedRS(sc["gseed"])
        g0 = g.get_state()
        G0 = np.random.get_state()
        bs = self.b_make()
        outs = []
        self.keep_handed_out = []
        a_count = b_count = 0
        for i, op in enumerate(self.case["ops"]):
            k = op["op"]
            ctx.log("op", k, {kk: vv for kk, vv in op.items() if kk != "op"})
            gd, Gd = rs_digest(g), core.SimRandom.state_digest()
            if k == "a_sample" and self.conditional.get(op["d"]):
                continue                  # object is conditional right now (refusal is checked by make_conditional)
            if k.startswith("a_"):
                a_count += 1
                pre = g.get_state()
                n_before = len(g.normals)
                try:
                    out, _ = self.a_op(op, dists, g, None)
                except Exception as e:
                    ctx.violate(PROP, "a_op_raised", self.sig(op=k, fam=self._fam(op)), err=type(e).__name__ + ": " + str(e)[:200])
                    continue
                if k == "a_sample" and self._fam(op) == "user_defined_row":
                    self._shape_oracle(op, dists[op["d"]], out_obj=None, arr=out)      # (private stream: only shape and wrapping)
                    continue
                if k == "a_sample":
                    self._gaussian_mechanism(op, dists[op["d"]], g, n_before, out)
                    self._linear_gaussian_identification(op, dists[op["d"]], g, n_before, out)
                    self._support_oracle(op, dists[op["d"]], out)
                if k == "a_sample" and op["d"] in self.specs:
                    self._fresh_twin_oracle(op, dists[op["d"]], pre, out)
                    if self.touched.get(op["d"]):
                        continue          # re-parameterised object: its solo run is not re-playable from the recipe
                outs.append((i, "A", out, pre))
                ctx.log("a_out", core.digest(out))
                if core.SimRandom.state_digest() != Gd:
                    ctx.violate(PROP, "global_stream_touched_by_rng_draw", self.sig(op=k, fam=self._fam(op)), N=op.get("N"))
                if k == "a_sample" and self._fam(op) == "user_defined_buffer":
                    outs.pop()                # its sampler owns its own stream: only the hand-over oracle applies
                    continue
                if k == "a_sample" and self._fam(op).endswith("_geom_cont2d"):
                    outs.pop()                # (its geometry is re-gridded during the run: no solo replay from the recipe)
                    self._shape_oracle(op, dists[op["d"]], out_obj=None, arr=out)
                    continue
                if k == "a_sample":
                    self._shape_oracle(op, dists[op["d"]], out_obj=None, arr=out)
                    if rs_digest(g) == gd and op["N"] > 0:
                        ctx.violate(PROP, "given_generator_not_used", self.sig(op=k, fam=self._fam(op)))
                    # repeat from the restored generator state
                    if op.get("repeat"):
                        post = g.get_state()
                        g.set_state(pre)
                        out2, _ = self.a_op(op, dists, g, None)
                        ctx.fault("restore_generator_state")
                        if not np.array_equal(out, out2, equal_nan=True):
                            ctx.violate(PROP, "not_a_function_of_generator_state", self.sig(op=k, fam=self._fam(op)))
                        if rs_digest(g) != rs_digest_from(post):
                            ctx.violate(PROP, "not_a_function_of_generator_state", self.sig(op=k, fam=self._fam(op), what="end_state"))
                        g.set_state(post)
            elif k.startswith("b_"):
                b_count += 1
                if k == "b_sample" and (self.touched.get(op["d"]) or self.conditional.get(op["d"])
                                        or self._fam(op).endswith("_geom_cont2d")):
                    continue                  # (a re-gridded geometry changes how much of the global stream a draw consumes)
                out = self.b_op(op, dists, bs)
                if self._fam(op) in ("user_defined_buffer", "user_defined_row") or self._fam(op).endswith("_geom_cont2d"):
                    continue                  # (draws from its private stream / geometry re-gridded during the run)
                outs.append((i, "B", out, None))
                ctx.log("b_out", core.digest(out))
                if rs_digest(g) != gd:
                    ctx.violate(PROP, "own_generator_touched_by_global_draw", self.sig(op=k, fam=self._fam(op)))
            elif k == "gen_sample":
                self._generator_client(op, dists)
            elif k == "cond_refuse":
                self._cond_refuse(op, g)
            elif k in ("setparam", "make_conditional"):
                self._setter_op(op, dists, g)
            elif k == "regrid":
                # the grid of the (caller-owned) geometry is refined between two draws: draws follow the geometry
                dd = dists[op["d"]]
                kk = int(op["k"])
                dd.geometry.grid = (np.linspace(0, 1, kk), np.linspace(0, 1, kk))
                self.touched[op["d"]] = True
                ctx.fault("geometry_grid_refined")
                self._shape_oracle({"N": 1, "d": op["d"]}, dd, out_obj=None, arr=None)
                self._shape_oracle({"N": 3, "d": op["d"]}, dd, out_obj=None, arr=None)
        if a_count and b_count:
            ctx.nontrivial = True
            ctx.fault("interleave", min(a_count, b_count))
        ctx.count("transitions", len(outs))
        # ---- every draw handed out earlier is still what it was
        handed, self.keep_handed_out = self.keep_handed_out, None
        for (obj, cp, fam_) in handed:
            if not np.array_equal(out_array(obj), cp, equal_nan=True):
                ctx.violate(PROP, "draw_altered_after_handover", self.sig(fam=fam_))
                break
        # ---- solo runs: A alone from g0, B alone from G0
        g2 = np.random.RandomState(0)
        g2.set_state(g0)
        saveG = np.random.get_state()
        for (i, who, out, pre_state) in outs:
            if who != "A":
                continue
            op = self.case["ops"][i]
            g2.set_state(pre_state)       # (A-ops on re-parameterised objects are judged by the fresh-twin oracle instead)
            o2, _ = self.a_op(op, twins, g2, None)
            ctx.count("decisions")
            if not np.array_equal(out, o2, equal_nan=True):
                ctx.violate(PROP, "interleaved_differs_from_solo", self.sig(client="A", op=op["op"], fam=self._fam(op)), index=i)
                break
        np.random.set_state(G0)
        bs2 = self.b_make()
        for (i, who, out, _pre) in outs:
            if who != "B":
                continue
            op = self.case["ops"][i]
            o2 = self.b_op(op, twins, bs2)
            ctx.count("decisions")
            if not np.array_equal(out, o2, equal_nan=True):
                ctx.violate(PROP, "interleaved_differs_from_solo", self.sig(client="B", op=op["op"], fam=self._fam(op)), index=i)
                break
        np.random.set_state(saveG)

    def _linear_gaussian_identification(self, op, dist, g, n_before, out):
        """GMRF families (all boundary conditions), when one call returns more draws than the generator handed out
        standard-normal rows: the draws are a *linear* function of those rows, S - mean = M E.  M is identified exactly
        from this one call (least squares, residual must vanish), the precision P the object's own log-density reports is
        read off its second differences (exact for a quadratic), and C = M M' must be the (pseudo-)inverse of P:
        C P C = C and P C P = P.  Decides the covariance of the draws also for non-square / rank-deficient noise maps."""
        ctx = self.ctx
        fam = self._fam(op)
        if not fam.startswith("gmrf_") or self.conditional.get(op["d"]) or dist.dim > 8:
            return
        N = op["N"]
        blocks = [np.asarray(b, float) for b in g.normals[n_before:]]
        try:
            E = np.vstack([b.reshape(-1, N) for b in blocks])
        except Exception:
            return
        K = E.shape[0]
        if N < K + 2:
            return
        m = np.asarray(dist.mean, float) * np.ones(dist.dim)
        Sm = out.reshape(dist.dim, -1) - m[:, None]
        M = np.linalg.lstsq(E.T, Sm.T, rcond=None)[0].T
        scale = max(1.0, float(np.max(np.abs(Sm))))
        if np.max(np.abs(M @ E - Sm)) > 1e-8 * scale:
            ctx.undecided("draws are not a linear function of the recorded normal rows")
            return
        n = dist.dim
        I = np.eye(n)
        f = lambda x: float(np.ravel(dist.logd(m + x))[0])
        try:
            f0 = f(np.zeros(n))
            fi = [f(I[i]) for i in range(n)]
            P = np.array([[-(f(I[i] + I[j]) - fi[i] - fi[j] + f0) for j in range(n)] for i in range(n)])
        except Exception:
            return
        if not np.all(np.isfinite(P)):
            return
        C = M @ M.T
        r1 = np.max(np.abs(C @ P @ C - C)) / max(np.max(np.abs(C)), 1e-300)
        r2 = np.max(np.abs(P @ C @ P - P)) / max(np.max(np.abs(P)), 1e-300)
        ctx.count("decisions")
        ctx.hit("linear_gaussian_identification")
        if r1 > 1e-5 or r2 > 1e-5:
            ctx.violate(PROP, "covariance_of_draws_is_not_pseudo_inverse_of_own_precision", self.sig(fam=fam),
                        CPC_minus_C=float(r1), PCP_minus_P=float(r2), N=N, noise_rows=int(K))

    def _support_oracle(self, op, dist, out):
        """one column per draw: every column of the returned collection must be a point of positive density under the
        object itself (catches a transposed / mis-shaped collection whose shape happens to be admissible)"""
        ctx = self.ctx
        if self.conditional.get(op["d"]):
            return
        cols = out.reshape(dist.dim, -1)
        for j in range(cols.shape[1]):
            try:
                v = float(np.ravel(dist.logd(cols[:, j]))[0])
            except Exception:
                return                      # family without an evaluable log-density: not judged
            ctx.count("decisions")
            if np.isnan(v) or v == -np.inf:
                ctx.violate(PROP, "drawn_column_outside_support", self.sig(fam=self._fam(op), N_eq_dim=(op["N"] == dist.dim)),
                            column=j, logd=v, N=op["N"], dim=int(dist.dim))
                return

    def _gaussian_mechanism(self, op, dist, g, n_before, out):
        """Gaussian-type families only: the draw is mean + L e for the standard-normal block e the generator handed out,
        and L must be a square root of the covariance *the object's own log-density reports*:
        2*(logd(mean) - logd(draw)) == e'e  for every column.  (A mechanism identity under the owned stream - the part of
        C05's first sentence that is decidable per run; other families' laws are not decided.)"""
        ctx = self.ctx
        fam = self._fam(op)
        if not fam.startswith(GAUSS_MECH) or self.conditional.get(op["d"]):
            return
        blocks = g.normals[n_before:]
        if len(blocks) != 1:
            ctx.undecided("gaussian draw did not use exactly one standard-normal block")
            return
        e = np.asarray(blocks[0], float).reshape(-1, op["N"]) if np.ndim(blocks[0]) > 1 else np.asarray(blocks[0], float).reshape(-1, 1)
        draws = out.reshape(dist.dim, -1)
        if e.shape[1] != draws.shape[1]:
            ctx.undecided("gaussian block shape")
            return
        try:
            if fam == "lognormal":
                inner = dist._normal
                ev = lambda x: float(np.ravel(inner.logd(np.log(x)))[0])
                m = np.asarray(inner.mean, float)
                l0 = float(np.ravel(inner.logd(m))[0])
            else:
                ev = lambda x: float(np.ravel(dist.logd(x))[0])
                m = np.asarray(dist.mean, float) * np.ones(dist.dim)
                l0 = ev(m)
        except Exception as ex:
            ctx.undecided("gaussian mechanism: logd unavailable " + type(ex).__name__)
            return
        for j in range(draws.shape[1]):
            q = 2 * (l0 - ev(draws[:, j]))
            ee = float(e[:, j] @ e[:, j])
            ctx.count("decisions")
            if not (np.isfinite(q) and core.close(q, ee, 1e-7)):
                if not np.isfinite(q):
                    ctx.undecided("gaussian mechanism: non-finite log-density")
                    return
                ctx.violate(PROP, "draw_is_not_mean_plus_sqrt_of_own_covariance", self.sig(fam=fam, big=dist.dim > 75),
                            quad_form=q, ee=ee, N=op["N"])
                return
        ctx.hit("gaussian_mechanism_checked")

    def _generator_client(self, op, dists):
        """A third client owning a NEW-STYLE numpy Generator (np.random.default_rng): for the families whose sampling
        calls exist on both generator types the draws must be a function of that generator's state, must advance it,
        and must leave the global stream untouched."""
        ctx = self.ctx
        d = op["d"]
        fam = self.sc["dists"][d]["fam"]
        if not fam.startswith(("normal", "gamma", "laplace", "uniform")) or self.conditional.get(d) or self.touched.get(d):
            return
        dist = dists[d]
        gen = np.random.default_rng(op["seed"])
        st0 = gen.bit_generator.state
        Gd = core.SimRandom.state_digest()
        try:
            a = out_array(dist.sample(op["N"], rng=gen))
        except Exception:
            ctx.undecided("family does not accept a new-style Generator")
            return
        ctx.fault("new_style_generator_client")
        ctx.count("decisions")
        sg = self.sig(fam=fam, generator="numpy.random.Generator")
        if core.SimRandom.state_digest() != Gd:
            ctx.violate(PROP, "global_stream_touched_by_rng_draw", sg, N=op["N"])
        if gen.bit_generator.state == st0:
            ctx.violate(PROP, "given_generator_not_used", sg)
        gen2 = np.random.default_rng(op["seed"])
        b = out_array(dist.sample(op["N"], rng=gen2))
        if not np.array_equal(a, b, equal_nan=True):
            ctx.violate(PROP, "not_a_function_of_generator_state", sg)

    def _fresh_twin_oracle(self, op, dist, g_state_before, out):
        """An object whose parameters were (re-)assigned must be indistinguishable from one constructed with them."""
        ctx = self.ctx
        fresh = from_spec(self.specs[op["d"]])
        g2 = np.random.RandomState(0)
        g2.set_state(g_state_before)
        ref = out_array(fresh.sample(op["N"], rng=g2))
        ctx.count("decisions")
        sg = self.sig(fam=self._fam(op), reassigned=bool(self.touched.get(op["d"])))
        if not close_arr(out, ref):
            ctx.violate(PROP, "draws_differ_from_freshly_constructed_twin", sg, N=op["N"])
            return
        x = out.reshape(dist.dim, -1)[:, 0]
        a, b = _safe(lambda: float(np.ravel(dist.logd(x))[0])), _safe(lambda: float(np.ravel(fresh.logd(x))[0]))
        if a is not None and b is not None and not core.close(a, b, 1e-9):
            ctx.violate(PROP, "logd_differs_from_freshly_constructed_twin", sg, got=a, twin=b)

    def _setter_op(self, op, dists, g):
        ctx = self.ctx
        d = op["d"]
        if d not in self.specs:
            return
        fam = self.sc["dists"][d]["fam"]
        attr = SETTABLE[fam]
        n = dists[d].dim
        spec = self.specs[d]
        if op["op"] == "setparam":
            rs = np.random.RandomState(op["pick"])
            if fam == "lognormal":
                new = rs.uniform(-0.5, 0.5, n)
            else:
                new = float(rs.uniform(0.3, 3.0)) if (op["scalar"] or attr == "cov" and fam == "gauss_cov_scalar") \
                    else rs.uniform(0.3, 3.0, n)
            setattr(dists[d], attr, new)
            spec[1][attr] = new
            self.touched[d] = True
            self.conditional[d] = False
            ctx.fault("parameter_reassigned")
        else:
            # turn the (already used) object into a conditional one by assigning a callable; it must then refuse to
            # sample, consume nothing, and behave like a freshly built conditional distribution once the value is given
            if fam == "lognormal":
                return                    # (its covariance must stay a matrix; only re-assignment is exercised)
            vec = fam != "gauss_cov_scalar"
            f = named_callable("s", n, vec)
            setattr(dists[d], attr, f)
            self.touched[d] = True
            self.conditional[d] = True
            ctx.fault("made_conditional_by_assignment")
            gd, Gd = rs_digest(g), core.SimRandom.state_digest()
            for with_rng in (True, False):
                try:
                    dists[d].sample(op["N"], rng=g) if with_rng else dists[d].sample(op["N"])
                    ctx.violate(PROP, "conditional_sampled", self.sig(kind="after_assignment", fam=fam, with_rng=with_rng))
                except ValueError:
                    pass
                except Exception as e:
                    ctx.violate(PROP, "conditional_sampled", self.sig(kind="after_assignment_crash", fam=fam),
                                err=type(e).__name__)
            if rs_digest(g) != gd or core.SimRandom.state_digest() != Gd:
                ctx.violate(PROP, "refusal_consumed_randomness", self.sig(kind="after_assignment", fam=fam))
            # give the value: must equal a freshly constructed distribution with that parameter
            val = 1.7
            try:
                got = out_array(dists[d](s=val).sample(op["N"], rng=np.random.RandomState(11)))
                sp2 = [spec[0], dict(spec[1])]
                sp2[1][attr] = f(val)
                ref = out_array(from_spec(sp2).sample(op["N"], rng=np.random.RandomState(11)))
                if not close_arr(got, ref):
                    ctx.violate(PROP, "draws_differ_from_freshly_constructed_twin", self.sig(fam=fam, reassigned=True), after="condition")
            except Exception as e:
                ctx.violate(PROP, "a_op_raised", self.sig(op="condition_after_assignment", fam=fam), err=type(e).__name__ + ": " + str(e)[:160])

    def _fam(self, op):
        if "d" in op:
            return self.sc["dists"][op["d"]]["fam"]
        return op.get("kind", "-")

    def _shape_oracle(self, op, dist, out_obj, arr):
        import cuqi
        ctx = self.ctx
        N = op["N"]
        g = np.random.RandomState(5)
        o = dist.sample(N, rng=g)
        if N == 1:
            ok = isinstance(o, cuqi.array.CUQIarray) and o.geometry == dist.geometry and np.asarray(o).size == dist.dim \
                and np.asarray(o).size == int(np.prod(dist.geometry.par_shape))
            if dist.dim > 1:
                ok = ok and np.asarray(o).shape == (dist.dim,)
        else:
            ok = isinstance(o, cuqi.samples.Samples) and o.geometry == dist.geometry and o.Ns == N and \
                o.samples.shape[0] in (int(np.prod(dist.geometry.par_shape)), N if dist.dim == 1 else -1) and \
                (o.samples.shape == (dist.dim, N) or (dist.dim == 1 and o.samples.shape == (N,)))
        if not ok:
            ctx.violate(PROP, "wrapping_or_shape", self.sig(fam=self._fam(op), N1=(N == 1)),
                        type=type(o).__name__, shape=list(np.shape(np.asarray(o.samples if hasattr(o, "samples") else o))))

    def _cond_refuse(self, op, g):
        import cuqi.distribution as D
        ctx = self.ctx
        kind = op["kind"]
        if kind == "gauss_cov":
            d = D.Gaussian(np.zeros(3), cov=lambda s: s)
        elif kind == "gauss_mean":
            d = D.Gaussian(lambda m: m * np.ones(3), 1.0)
        elif kind == "gamma":
            d = D.Gamma(lambda a: a, 1.0)
        elif kind == "gmrf":
            d = D.GMRF(np.zeros(4), prec=lambda p: p)
        else:
            d = D.Normal(0, lambda s: s)
        gd, Gd = rs_digest(g), core.SimRandom.state_digest()
        ctx.fault("sample_conditional")
        for with_rng in (True, False):
            try:
                d.sample(op["N"], rng=g) if with_rng else d.sample(op["N"])
                ctx.violate(PROP, "conditional_sampled", self.sig(kind=kind, with_rng=with_rng))
            except Exception:
                pass
        if rs_digest(g) != gd or core.SimRandom.state_digest() != Gd:
            ctx.violate(PROP, "refusal_consumed_randomness", self.sig(kind=kind))


def close_arr(a, b):
    a, b = np.asarray(a, float), np.asarray(b, float)
    return a.shape == b.shape and core.close(a.ravel(), b.ravel(), 1e-9)


def _safe(fn):
    try:
        return fn()
    except Exception:
        return None


def rs_digest_from(state):
    r = np.random.RandomState(0)
    r.set_state(state)
    return rs_digest(r)


def gen_case(r, tier):
    nd = r.randint(1, 3)
    dists = [{"fam": r.choice([f_ for f_ in FAMILIES if f_ != "user_defined_gauss"]), "n": r.randint(1, 5), "zseed": r.randrange(1, 10 ** 6)} for _ in range(nd)]
    for d in dists:
        if d["fam"] in ("gauss_cov_scalar", "gauss_cov_vec", "gauss_sparse_cov", "gauss_sparse_prec", "normal", "gauss_cov_full",
                        "gauss_prec_full", "gauss_sqrtcov", "gauss_sqrtprec", "gauss_sqrtprec_lower", "gauss_sqrtprec_full",
                        "gauss_sqrtcov_full") and r.random() < 0.25:
            d["n"] = r.choice([76, 80, 90])        # across the dense/sparse storage switch (MIN_DIM_SPARSE = 75)
        if d["fam"].startswith("gauss_sparse"):
            d["n"] = max(d["n"], 2)          # a 1x1 sparse matrix is not an accepted Gaussian input (outside C05)
    # a 1-D field with as many nodes as a 2-D field of the same scenario has pixels (same boundary condition and order)
    for d in list(dists):
        if d["fam"] == "gmrf2d" and len(dists) < 4:
            dists.append({"fam": "gmrf_zero", "n": 9, "zseed": r.randrange(1, 10 ** 6)})
        elif d["fam"] in ("gmrf2d_order0", "gmrf2d_order2") and len(dists) < 4:
            dists.append({"fam": "gmrf_order" + d["fam"][-1], "n": 16, "zseed": r.randrange(1, 10 ** 6)})
    nd = len(dists)
    sc = {"dists": dists, "gseed": r.randrange(2 ** 31), "zseed": r.randrange(1, 10 ** 6)}
    ops = []
    for _ in range(r.randint(3, 10)):
        x = r.random()
        N = r.choice([1, 1, 2, 3, 4, 5, 7])
        if x < 0.45:
            d_ = r.randrange(nd)
            if dists[d_]["fam"].startswith("gmrf_") and r.random() < 0.5:
                N = 3 * max(dists[d_]["n"], 3) + 4          # more draws than noise rows: the noise map is identifiable
            elif dists[d_]["fam"].startswith("gauss_sparse") and r.random() < 0.2:
                N = r.choice([1001, 1024, 1500])            # a large batch of draws in one call (sparse solve path)
            ops.append({"op": "a_sample", "d": d_, "N": N, "repeat": r.random() < 0.4})
        elif x < 0.55:
            ops.append({"op": "a_legacy", "kind": r.choice(["ULA", "MALA", "UGLA"]), "N": r.randint(2, 5)})
        elif x < 0.75:
            ops.append({"op": "b_sample", "d": r.randrange(nd), "N": N})
        elif x < 0.90:
            ops.append({"op": "b_mcmc", "N": r.randint(1, 4)})
        elif x < 0.935:
            ops.append({"op": "gen_sample", "d": r.randrange(nd), "N": N, "seed": r.randrange(2 ** 31)})
        elif x < 0.96:
            ops.append({"op": "cond_refuse", "kind": r.choice(["gauss_cov", "gauss_mean", "gamma", "gmrf", "normal"]), "N": N})
        elif x < 0.985:
            ops.append({"op": "setparam", "d": r.randrange(nd), "pick": r.randrange(10 ** 6), "scalar": r.random() < 0.5})
        else:
            ops.append({"op": "make_conditional", "d": r.randrange(nd), "N": N})
    for j_, d in enumerate(dists):
        if d["fam"].endswith("_geom_cont2d"):
            pos_ = r.randint(0, len(ops))
            ops.insert(pos_, {"op": "regrid", "d": j_, "k": r.choice([4, 5, 2])})
            ops.insert(r.randint(0, pos_), {"op": "a_sample", "d": j_, "N": r.choice([1, 3]), "repeat": False})
    return {"scenario": sc, "ops": ops}


class StreamsEngine(EngineBase):
    name = "streams"
    real = ["cuqi.distribution.Distribution.sample and every _sample(N, rng) implementation (Gaussian in all forms dense/"
            "sparse, GMRF zero/periodic/neumann/2D, Normal, Gamma, InverseGamma, Beta, Laplace, Lognormal, Uniform, Cauchy, "
            "ModifiedHalfNormal)", "cuqi.sampler.{ULA,MALA,UGLA}(rng=...)", "cuqi.experimental.mcmc.MH as global-stream client"]
    stub = ["caller-owned numpy RandomState (logged by digest)", "global numpy.random tape (seeded, logged wrappers)"]
    assumptions = ["only the random-stream, wrapping and refusal clauses of C05 are decided; the distributional clause (draws "
                   "follow the object's own density) is outside this technique (DESIGN.md 3.6, 4)"]
    rule = ("streams: 1-3 distributions from 21 family/parameterisation recipes, an interleaving of client-A ops (sample with own "
            "generator, legacy samplers with rng=) and client-B ops (global-stream sampling, MCMC steps), conditional-refusal "
            "probes; non-trivial = both clients active in the run")

    def gen(self, r, tier):
        return gen_case(r, tier)

    def run(self, case, ctx):
        sim = core.SimRandom(ctx)
        sim.install()
        try:
            StreamsRun(ctx, case).run()
        finally:
            sim.uninstall()
