"""Engine `streams` (C05, random-stream clauses only).

Two logical clients share one process: client **A** draws with its *own* generator g
(`D.sample(N, rng=g)`, legacy `ULA/MALA/UGLA(rng=g)`), client **B** consumes the *global* stream
(an experimental sampler stepping, a distribution sampled without `rng`).  The scheduler
interleaves their operations.  Oracles: each client's outputs equal its solo run from the same
initial stream state; an A-op leaves the global state untouched and a B-op leaves g untouched;
repeating an A-op from a restored g-state repeats the output; one draw is an array carrying the
distribution's geometry, several draws a sample collection with one column per draw; a
conditional distribution refuses to sample and consumes nothing.

Not decided here (DESIGN.md 3.6/4): that the draws follow the object's own density.
"""
import numpy as np
import scipy.sparse as sps

from sim import core, zoo
from sim.core import as_vec, bit_equal, rs_digest
from .chain import EngineBase

PROP = "C05"

FAMILIES = ["gauss_cov_scalar", "gauss_cov_vec", "gauss_cov_full", "gauss_prec_full", "gauss_sqrtcov",
            "gauss_sqrtprec", "gauss_sparse_cov", "gauss_sparse_prec", "gmrf_zero", "gmrf_periodic",
            "gmrf_neumann", "gmrf2d", "normal", "gamma", "invgamma", "beta", "laplace", "lognormal",
            "uniform", "cauchy", "mhn", "user_defined_gauss"]


def build_dist(rec):
    import cuqi.distribution as D
    fam, n, z = rec["fam"], rec["n"], rec["zseed"]
    rs = np.random.RandomState(z)
    mean = rs.randn(n)
    B = rs.randn(n, n) * 0.4
    C = np.eye(n) + B @ B.T
    if fam == "gauss_cov_scalar":
        return D.Gaussian(mean, 0.7)
    if fam == "gauss_cov_vec":
        return D.Gaussian(mean, np.linspace(0.5, 2.0, n))
    if fam == "gauss_cov_full":
        return D.Gaussian(mean, C)
    if fam == "gauss_prec_full":
        return D.Gaussian(mean, prec=C)
    if fam == "gauss_sqrtcov":
        return D.Gaussian(mean, sqrtcov=np.eye(n) + np.tril(B))
    if fam == "gauss_sqrtprec":
        return D.Gaussian(mean, sqrtprec=np.eye(n) + np.triu(B))
    if fam == "gauss_sparse_cov":
        return D.Gaussian(mean, sps.diags(np.linspace(0.5, 2.0, n)))
    if fam == "gauss_sparse_prec":
        return D.Gaussian(mean, prec=sps.diags(np.linspace(0.5, 2.0, n)))
    if fam in ("gmrf_zero", "gmrf_periodic", "gmrf_neumann"):
        n = max(n, 3)
        return D.GMRF(np.random.RandomState(z).randn(n), 2.5, bc_type=fam.split("_")[1])
    if fam == "gmrf2d":
        import cuqi
        return D.GMRF(np.zeros(9), 1.5, bc_type=rec.get("bc", "zero"), geometry=cuqi.geometry.Image2D((3, 3)))
    if fam == "normal":
        return D.Normal(mean, np.linspace(0.3, 1.2, n))
    if fam == "gamma":
        return D.Gamma(np.linspace(1.0, 3.0, n), np.linspace(0.5, 2.0, n))
    if fam == "invgamma":
        return D.InverseGamma(np.linspace(2.0, 3.0, n), np.zeros(n), np.linspace(0.5, 2.0, n))
    if fam == "beta":
        return D.Beta(np.linspace(0.5, 3.0, n), np.linspace(1.0, 2.0, n))
    if fam == "laplace":
        return D.Laplace(mean, np.linspace(0.5, 2.0, n))
    if fam == "lognormal":
        return D.Lognormal(mean * 0.3, 0.4 * np.eye(n))
    if fam == "uniform":
        return D.Uniform(mean - 1.0, mean + np.linspace(0.5, 2.0, n))
    if fam == "cauchy":
        return D.Cauchy(mean, np.linspace(0.5, 2.0, n))
    if fam == "mhn":
        return D.ModifiedHalfNormal(2.0 + rec["zseed"] % 3, 1.5, -0.5 + (rec["zseed"] % 5) * 0.5)
    if fam == "user_defined_gauss":
        g = D.Gaussian(mean, 0.7)
        return g          # placeholder kept simple: UserDefinedDistribution._sample ignores rng by design (TODO upstream)
    raise ValueError(fam)


def out_array(o):
    if hasattr(o, "samples"):
        return np.array(o.samples, float)
    return np.array(as_vec(o), float)


class StreamsRun:
    def __init__(self, ctx, case):
        self.ctx, self.case, self.sc = ctx, case, case["scenario"]

    def sig(self, **k):
        d = {"engine": "streams"}
        d.update(k)
        return d

    # ---- clients --------------------------------------------------------------------------
    def a_op(self, op, dists, g, legacy_cache):
        """Execute one A operation with generator g; returns ndarray output."""
        if op["op"] == "a_sample":
            return out_array(dists[op["d"]].sample(op["N"], rng=g)), None
        if op["op"] == "a_legacy":
            import cuqi.sampler as LS
            key = op["kind"]
            with core.setup_stream(12345):
                if key == "UGLA":
                    post, _ = zoo.lin_posterior(core.Ctx(0), {"dim": 3, "zseed": self.sc["zseed"], "prior": "lmrf", "m": 4})
                    s = LS.UGLA(post, rng=g, maxit=10)
                else:
                    t, _ = zoo.ud_target(core.Ctx(0), {"kind": "gauss", "dim": 2, "zseed": self.sc["zseed"]})
                    s = getattr(LS, key)(t, scale=0.1, x0=np.zeros(2), rng=g)
            return out_array(s.sample(op["N"])), None
        raise ValueError(op)

    def b_make(self):
        import cuqi.experimental.mcmc as M
        with core.setup_stream(777):
            t, _ = zoo.ud_target(core.Ctx(0), {"kind": "quartic", "dim": 2, "zseed": self.sc["zseed"]}, with_grad=False)
            s = M.MH(t, scale=0.7, initial_point=np.zeros(2))
            s.initialize()
        return s

    def b_op(self, op, dists, bs):
        if op["op"] == "b_sample":
            return out_array(dists[op["d"]].sample(op["N"]))
        if op["op"] == "b_mcmc":
            n0 = len(bs._samples)
            bs.sample(op["N"])
            a = np.array(bs.get_samples().samples, float)
            return a[:, n0:]
        raise ValueError(op)

    # ---- run --------------------------------------------------------------------------------
    def run(self):
        ctx, sc = self.ctx, self.sc
        dists = [build_dist(r) for r in sc["dists"]]
        # the solo runs use the *same* distribution objects: sampling does not alter them (C11), whereas a
        # re-built GMRF differs by an ulp (its constructor runs ARPACK with a hidden random start vector)
        twins = dists
        g = np.random.RandomState(sc["gseed"])
        g0 = g.get_state()
        G0 = np.random.get_state()
        bs = self.b_make()
        outs = []
        a_count = b_count = 0
        for i, op in enumerate(self.case["ops"]):
            k = op["op"]
            ctx.log("op", k, {kk: vv for kk, vv in op.items() if kk != "op"})
            gd, Gd = rs_digest(g), core.SimRandom.state_digest()
            if k.startswith("a_"):
                a_count += 1
                pre = g.get_state()
                try:
                    out, _ = self.a_op(op, dists, g, None)
                except Exception as e:
                    ctx.violate(PROP, "a_op_raised", self.sig(op=k, fam=self._fam(op)), err=type(e).__name__ + ": " + str(e)[:200])
                    continue
                outs.append((i, "A", out))
                ctx.log("a_out", core.digest(out))
                if core.SimRandom.state_digest() != Gd:
                    ctx.violate(PROP, "global_stream_touched_by_rng_draw", self.sig(op=k, fam=self._fam(op)), N=op.get("N"))
                if k == "a_sample":
                    self._shape_oracle(op, dists[op["d"]], out_obj=None, arr=out)
                    if rs_digest(g) == gd and op["N"] > 0:
                        ctx.violate(PROP, "given_generator_not_used", self.sig(op=k, fam=self._fam(op)))
                    # repeat from the restored generator state
                    if op.get("repeat"):
                        post = g.get_state()
                        g.set_state(pre)
                        out2, _ = self.a_op(op, dists, g, None)
                        ctx.fault("restore_generator_state")
                        if not np.array_equal(out, out2, equal_nan=True):
                            ctx.violate(PROP, "not_a_function_of_generator_state", self.sig(op=k, fam=self._fam(op)))
                        if rs_digest(g) != rs_digest_from(post):
                            ctx.violate(PROP, "not_a_function_of_generator_state", self.sig(op=k, fam=self._fam(op), what="end_state"))
                        g.set_state(post)
            elif k.startswith("b_"):
                b_count += 1
                out = self.b_op(op, dists, bs)
                outs.append((i, "B", out))
                ctx.log("b_out", core.digest(out))
                if rs_digest(g) != gd:
                    ctx.violate(PROP, "own_generator_touched_by_global_draw", self.sig(op=k, fam=self._fam(op)))
            elif k == "cond_refuse":
                self._cond_refuse(op, g)
        if a_count and b_count:
            ctx.nontrivial = True
            ctx.fault("interleave", min(a_count, b_count))
        ctx.count("transitions", len(outs))
        # ---- solo runs: A alone from g0, B alone from G0
        g2 = np.random.RandomState(0)
        g2.set_state(g0)
        saveG = np.random.get_state()
        for (i, who, out) in outs:
            if who != "A":
                continue
            op = self.case["ops"][i]
            o2, _ = self.a_op(op, twins, g2, None)
            ctx.count("decisions")
            if not np.array_equal(out, o2, equal_nan=True):
                ctx.violate(PROP, "interleaved_differs_from_solo", self.sig(client="A", op=op["op"], fam=self._fam(op)), index=i)
                break
        np.random.set_state(G0)
        bs2 = self.b_make()
        for (i, who, out) in outs:
            if who != "B":
                continue
            op = self.case["ops"][i]
            o2 = self.b_op(op, twins, bs2)
            ctx.count("decisions")
            if not np.array_equal(out, o2, equal_nan=True):
                ctx.violate(PROP, "interleaved_differs_from_solo", self.sig(client="B", op=op["op"], fam=self._fam(op)), index=i)
                break
        np.random.set_state(saveG)

    def _fam(self, op):
        if "d" in op:
            return self.sc["dists"][op["d"]]["fam"]
        return op.get("kind", "-")

    def _shape_oracle(self, op, dist, out_obj, arr):
        import cuqi
        ctx = self.ctx
        N = op["N"]
        g = np.random.RandomState(5)
        o = dist.sample(N, rng=g)
        if N == 1:
            ok = isinstance(o, cuqi.array.CUQIarray) and o.geometry == dist.geometry and np.asarray(o).size == dist.dim
            if dist.dim > 1:
                ok = ok and np.asarray(o).shape == (dist.dim,)
        else:
            ok = isinstance(o, cuqi.samples.Samples) and o.geometry == dist.geometry and o.Ns == N and \
                (o.samples.shape == (dist.dim, N) or (dist.dim == 1 and o.samples.shape == (N,)))
        if not ok:
            ctx.violate(PROP, "wrapping_or_shape", self.sig(fam=self._fam(op), N1=(N == 1)),
                        type=type(o).__name__, shape=list(np.shape(np.asarray(o.samples if hasattr(o, "samples") else o))))

    def _cond_refuse(self, op, g):
        import cuqi.distribution as D
        ctx = self.ctx
        kind = op["kind"]
        if kind == "gauss_cov":
            d = D.Gaussian(np.zeros(3), cov=lambda s: s)
        elif kind == "gauss_mean":
            d = D.Gaussian(lambda m: m * np.ones(3), 1.0)
        elif kind == "gamma":
            d = D.Gamma(lambda a: a, 1.0)
        elif kind == "gmrf":
            d = D.GMRF(np.zeros(4), prec=lambda p: p)
        else:
            d = D.Normal(0, lambda s: s)
        gd, Gd = rs_digest(g), core.SimRandom.state_digest()
        ctx.fault("sample_conditional")
        for with_rng in (True, False):
            try:
                d.sample(op["N"], rng=g) if with_rng else d.sample(op["N"])
                ctx.violate(PROP, "conditional_sampled", self.sig(kind=kind, with_rng=with_rng))
            except Exception:
                pass
        if rs_digest(g) != gd or core.SimRandom.state_digest() != Gd:
            ctx.violate(PROP, "refusal_consumed_randomness", self.sig(kind=kind))


def rs_digest_from(state):
    r = np.random.RandomState(0)
    r.set_state(state)
    return rs_digest(r)


def gen_case(r, tier):
    nd = r.randint(1, 3)
    dists = [{"fam": r.choice(FAMILIES[:-1]), "n": r.randint(1, 5), "zseed": r.randrange(1, 10 ** 6)} for _ in range(nd)]
    for d in dists:
        if d["fam"].startswith("gauss_sparse"):
            d["n"] = max(d["n"], 2)          # a 1x1 sparse matrix is not an accepted Gaussian input (outside C05)
    sc = {"dists": dists, "gseed": r.randrange(2 ** 31), "zseed": r.randrange(1, 10 ** 6)}
    ops = []
    for _ in range(r.randint(3, 10)):
        x = r.random()
        N = r.choice([1, 1, 2, 3, 7])
        if x < 0.45:
            ops.append({"op": "a_sample", "d": r.randrange(nd), "N": N, "repeat": r.random() < 0.4})
        elif x < 0.55:
            ops.append({"op": "a_legacy", "kind": r.choice(["ULA", "MALA", "UGLA"]), "N": r.randint(2, 5)})
        elif x < 0.75:
            ops.append({"op": "b_sample", "d": r.randrange(nd), "N": N})
        elif x < 0.92:
            ops.append({"op": "b_mcmc", "N": r.randint(1, 4)})
        else:
            ops.append({"op": "cond_refuse", "kind": r.choice(["gauss_cov", "gauss_mean", "gamma", "gmrf", "normal"]), "N": N})
    return {"scenario": sc, "ops": ops}


class StreamsEngine(EngineBase):
    name = "streams"
    real = ["cuqi.distribution.Distribution.sample and every _sample(N, rng) implementation (Gaussian in all forms dense/"
            "sparse, GMRF zero/periodic/neumann/2D, Normal, Gamma, InverseGamma, Beta, Laplace, Lognormal, Uniform, Cauchy, "
            "ModifiedHalfNormal)", "cuqi.sampler.{ULA,MALA,UGLA}(rng=...)", "cuqi.experimental.mcmc.MH as global-stream client"]
    stub = ["caller-owned numpy RandomState (logged by digest)", "global numpy.random tape (seeded, logged wrappers)"]
    assumptions = ["only the random-stream, wrapping and refusal clauses of C05 are decided; the distributional clause (draws "
                   "follow the object's own density) is outside this technique (DESIGN.md 3.6, 4)"]
    rule = ("streams: 1-3 distributions from 21 family/parameterisation recipes, an interleaving of client-A ops (sample with own "
            "generator, legacy samplers with rng=) and client-B ops (global-stream sampling, MCMC steps), conditional-refusal "
            "probes; non-trivial = both clients active in the run")

    def gen(self, r, tier):
        return gen_case(r, tier)

    def run(self, case, ctx):
        sim = core.SimRandom(ctx)
        sim.install()
        try:
            StreamsRun(ctx, case).run()
        finally:
            sim.uninstall()
