"""Engine `nuts` (C08): mechanism clauses of the No-U-Turn sampler by lock-step reference.

Per transition the simulator holds the momentum draw r0, the slice draw e, every scalar uniform it
served and the ordered target evaluations.  An independent reference (leapfrog + Algorithm 3 of
Hoffman & Gelman with slice variable, stop flags, counts, progressive sub-sampling and the
top-level min(1, n'/n) rule) runs as a coroutine *in lock step*: every time the implementation asks
for a uniform, the reference is advanced to its next uniform request, and the adversarial policy
places the uniform next to the reference's threshold (n''/(n'+n'') at merges, min(1,n'/n) at the
top level), so that a wrong weight flips a decision.  At the end of the transition the reference
predicts: (A) the exact ordered set of evaluated points (integrator, doubling, stopping), (B) the
selected state, (C) the cached log-density/gradient, (D) the acceptance statistic and the step size
after tuning.  Faults: the target returns NaN / -inf / +inf at scheduled leaves.
"""
import math

import numpy as np

from sim import core, zoo
from sim.core import as_vec, close
from .chain import EngineBase

PROP = "C08"
DELTA = 1e-7


class Diverged(Exception):
    pass


class RefNUTS:
    """Reference transition as a generator: yields (site, threshold) whenever it needs a uniform and
    receives the uniform actually served."""

    def __init__(self, ref_logd, ref_grad, leaf_source, legacy=False):
        self.f, self.g = ref_logd, ref_grad
        self.leaf_source = leaf_source      # callable(k) -> (point, fault_kind) of the implementation's k-th leaf or None
        self.legacy = legacy
        self.leaves = []                    # reference's evaluated points in order
        self.faulted_leaves = []
        self.eps = None
        self.selected_leaf_index = None
        # the reference itself never selects a non-finite leaf; `report_unguarded` lets it mirror an unguarded
        # top-level rule so that the selection of a faulted leaf is reported once, as such, and not as a trace mismatch
        self.report_unguarded = False

    def value(self, x):
        """log-density the implementation must have seen at its next leaf (reference value unless a fault was
        injected at that evaluation)."""
        k = len(self.leaves)
        src = self.leaf_source(k)
        self.leaves.append(x.copy())
        v = self.f(x)
        if src is not None and src[1] is not None:
            self.faulted_leaves.append(k)
            v = {"nan": np.nan, "-inf": -np.inf, "inf": np.inf}[src[1]]
        return v

    def leap(self, x, r, g, e):
        r = r + 0.5 * e * g
        x = x + e * r
        l = self.value(x)
        g2 = self.g(x)
        r = r + 0.5 * e * g2
        return x, r, l, g2

    def infer_eps(self, x0, r0, g0, v):
        """step size from the implementation's first leaf: x1 = x0 + e*(r0 + 0.5*e*g0), e = v*eps."""
        src = self.leaf_source(0)
        if src is None:
            raise core.Undecided("no first leaf to infer the step size from")
        dx = src[0] - x0
        i = int(np.argmax(np.abs(r0)))
        a, b, c = 0.5 * g0[i], r0[i], -dx[i]
        cands = []
        if abs(a) < 1e-300:
            if b != 0:
                cands.append(-c / b)
        else:
            disc = b * b - 4 * a * c
            if disc >= 0:
                sq = math.sqrt(disc)
                cands += [(-b + sq) / (2 * a), (-b - sq) / (2 * a)]
        good = [abs(e) for e in cands if e * v > 0 and close(x0 + e * (r0 + 0.5 * e * g0), src[0], 1e-9)]
        if not good:
            raise core.Undecided("first leaf is not a leapfrog step of any step size")
        hint = getattr(self, "eps_hint", None)
        return min(good, key=(lambda e: abs(e - hint)) if hint else (lambda e: e))

    def build(self, x, r, g, H0, logu, v, j):
        if j == 0:
            if self.eps is None:
                self.eps = self.infer_eps(x, r, g, v)
            x1, r1, l1, g1 = self.leap(x, r, g, v * self.eps)
            H = l1 - 0.5 * float(r1 @ r1)
            with np.errstate(invalid="ignore", over="ignore"):
                n = int(logu <= H)
                st = int(logu < 1000 + H)
                dH = H - H0
                # Metropolis probability of the leaf; a leaf whose energy is not a number can never be moved to: probability 0
                a = 0.0 if np.isnan(dH) else (1.0 if dH > 0 else float(np.exp(dH)))
            leaf = len(self.leaves) - 1
            return x1, r1, g1, x1, r1, g1, x1, l1, g1, n, st, a, 1, leaf
        xm, rm, gm, xp, rp, gp, xc, lc, gc, n, st, a, na, lf = yield from self.build(x, r, g, H0, logu, v, j - 1)
        if st == 1:
            if v == -1:
                xm, rm, gm, _, _, _, x2, l2, g2, n2, s2, a2, na2, lf2 = yield from self.build(xm, rm, gm, H0, logu, v, j - 1)
            else:
                _, _, _, xp, rp, gp, x2, l2, g2, n2, s2, a2, na2, lf2 = yield from self.build(xp, rp, gp, H0, logu, v, j - 1)
            thr = n2 / max(1, n + n2)
            u = yield ("merge", thr)
            if u <= thr:
                xc, lc, gc, lf = x2, l2, g2, lf2
            a += a2
            na += na2
            d = xp - xm
            st = s2 * int(d @ rm >= 0) * int(d @ rp >= 0)
            n += n2
        return xm, rm, gm, xp, rp, gp, xc, lc, gc, n, st, a, na, lf

    def step(self, x0, r0, e_draw, eps, maxd):
        self.eps = eps
        l0, g0 = self.f(x0), self.g(x0)
        H0 = l0 - 0.5 * float(r0 @ r0)
        logu = H0 - e_draw
        xm = xp = x0
        rm = rp = r0
        gm = gp = g0
        cur, cur_leaf = x0, None
        j, st, n = 0, 1, 1
        a, na = float("nan"), 1
        stop_reason = "max_depth"
        while st == 1 and j <= maxd:
            u = yield ("dir", 0.5)
            v = int(2 * (u < 0.5) - 1)
            nleaf0 = len(self.leaves)
            if v == -1:
                xm, rm, gm, _, _, _, xc, lc, gc, n2, s2, a, na, lf = yield from self.build(xm, rm, gm, H0, logu, v, j)
            else:
                _, _, _, xp, rp, gp, xc, lc, gc, n2, s2, a, na, lf = yield from self.build(xp, rp, gp, H0, logu, v, j)
            if s2 == 1:
                thr = min(1.0, n2 / n)
                u = yield ("top", thr)
                ok = u <= thr
                if not self.report_unguarded:
                    ok = ok and not (np.isnan(lc) or np.isinf(lc))
                if ok:
                    cur, cur_leaf = xc, lf
            else:
                stop_reason = "subtree_stop"
            n += n2
            d = xp - xm
            uturn = int(d @ rm >= 0) * int(d @ rp >= 0)
            st = s2 * uturn
            if s2 == 1 and uturn == 0:
                stop_reason = "top_uturn"
            self.last_doubling_leaves = len(self.leaves) - nleaf0
            self.last_n2 = n2
            j += 1
        self.selected_leaf_index = cur_leaf
        return cur, (a / na), stop_reason, j


class NutsOracle:
    def __init__(self, ctx, sim, refs, iface, get_sampler, maxd):
        self.ctx, self.sim, self.refs, self.iface = ctx, sim, refs, iface
        self.get_sampler = get_sampler
        self.maxd = maxd
        self.active = False
        self.gen = None
        self.history = "fresh"

    def sig(self, **k):
        d = {"engine": "nuts", "iface": self.iface}
        if getattr(self, "poisoned", False):
            d["after_nonfinite_selected"] = True     # consequences of an already reported non-finite selection
        d.update(k)
        return d

    # ---- transition bookkeeping
    def begin(self, x, eps):
        self.x0 = as_vec(x)
        self.eps = eps
        self.mark = len(self.sim.recording)
        self.p_logd = self.refs["p_logd"]
        self.p_logd.trace.clear()
        self.gen = None
        self.ref = None
        self.result = None
        self.pending = None
        self.protocol_broken = None
        self.n_uniforms = 0
        self.served = []
        self.astat = None
        self.active = True

    def leaf_source(self, k):
        tr = self.p_logd.trace
        if k < len(tr):
            return as_vec(tr[k][0][0]), tr[k][2]
        return None

    def _start_gen(self):
        r0, e = self._momentum_and_slice_quiet()
        self.ref = RefNUTS(self.refs["ref_logd"], self.refs["ref_grad"], self.leaf_source, legacy=(self.iface == "legacy"))
        self.ref.eps_hint = getattr(self, "eps_hint", None)
        self.gen = self.ref.step(self.x0, r0, e, self.eps, self.maxd)
        return next(self.gen)

    def policy(self, name, args, kwargs, tape_value):
        if not self.active or name != "rand" or args or kwargs:
            return None
        ctx = self.ctx
        self.n_uniforms += 1
        u = self._place(tape_value)
        self.served.append(float(tape_value) if u is None else float(u))
        return u

    def _place(self, tape_value):
        """online lock-step helper: only *places* the uniform; the verdicts come from the offline replay in end()"""
        ctx = self.ctx
        if self.protocol_broken or self.result is not None:
            if self.result is not None and not self.protocol_broken:
                self.protocol_broken = "implementation asked for more uniforms than the reference"
            return None
        try:
            if self.gen is None:
                site = self._start_gen()
            else:
                site = self.gen.send(self.pending)
        except StopIteration as s:
            self.result = s.value
            self.protocol_broken = "implementation asked for more uniforms than the reference"
            return None
        except core.Undecided as e:
            self.protocol_broken = "undecided:" + str(e)
            return None
        kind, thr = site
        tape_u = float(tape_value)
        u = tape_u
        if kind in ("merge", "top"):
            r = ctx.sched.random()
            if r < 0.4:
                u = thr * (1 - DELTA) if thr > 0 else 1e-12          # at/below the threshold ...
                if thr >= 1.0:
                    u = 1 - 1e-12
                if thr <= 0:
                    ctx.hit("n_zero_subtree_offered")
            elif r < 0.8:
                u = thr * (1 + DELTA) if 0 < thr < 1 - 2 * DELTA else (1e-12 if thr <= 0 else tape_u)
            if not (0.0 <= u < 1.0):
                u = tape_u
            if abs(u - thr) < 1e-14 and 0 < thr < 1:
                u = tape_u
            ctx.count("decisions")
            ctx.nontrivial = True
        self.pending = u
        ctx.log("nuts_site", kind, thr, u)
        return u

    def finish_reference(self):
        """Drive the reference to its end after the implementation finished the transition."""
        if self.gen is None:
            return
        if self.result is not None:
            return
        try:
            self.gen.send(self.pending)
            # the reference wants yet another uniform that the implementation never drew
            self.protocol_broken = self.protocol_broken or "reference needs more uniforms than the implementation drew"
        except StopIteration as s:
            self.result = s.value
        except core.Undecided as e:
            self.protocol_broken = "undecided:" + str(e)

    def _momentum_and_slice(self):
        """momentum draw r0 and the slice level as e = H0 - log u >= 0.  Two protocols are recognised for the slice
        variable: log u = H0 - Exp(1)  and the textbook  u ~ U(0, exp(H0)).  A slice level that is not finite (u = 0
        because exp(H0) underflowed) is a violation: every state would then count as inside the slice."""
        rec = self.sim.recording[self.mark:]
        sn = [d for d in rec if d[0] == "standard_normal"]
        if not sn:
            raise core.Undecided("momentum draw not found")
        r0 = as_vec(sn[0][1])
        ex = [d for d in rec if d[0] == "exponential"]
        if ex:
            return r0, float(np.ravel(ex[0][1])[0])
        un = [d for d in rec if d[0] == "uniform" and np.size(d[1]) == 1]
        if un:
            H0 = self.refs["ref_logd"](self.x0) - 0.5 * float(r0 @ r0)
            v = float(np.ravel(un[0][1])[0])
            hi = un[0][2][1] if len(un[0][2]) > 1 else un[0][3].get("high")
            if not close(float(np.ravel(hi)[0]), math.exp(H0) if H0 > -745 else 0.0, 1e-9):
                raise core.Undecided("uniform draw is not U(0, exp(H0))")
            if not v > 0.0:
                self.ctx.violate(PROP, "slice_variable_degenerate", self.sig(history=self.history), H0=H0, u=v)
                raise core.Undecided("degenerate slice variable (reported)")
            return r0, H0 - math.log(v)
        raise core.Undecided("slice draw not found")

    def _momentum_and_slice_quiet(self):
        """for the online placement helper: same recognition, but never reports"""
        rec = self.sim.recording[self.mark:]
        sn = [d for d in rec if d[0] == "standard_normal"]
        ex = [d for d in rec if d[0] == "exponential"]
        if not sn:
            raise core.Undecided("momentum draw not found before the first uniform")
        r0 = as_vec(sn[-1][1])
        if ex:
            return r0, float(np.ravel(ex[-1][1])[0])
        un = [d for d in rec if d[0] == "uniform" and np.size(d[1]) == 1]
        if un:
            v = float(np.ravel(un[-1][1])[0])
            H0 = self.refs["ref_logd"](self.x0) - 0.5 * float(r0 @ r0)
            return r0, (H0 - math.log(v)) if v > 0 else float("inf")
        raise core.Undecided("slice draw not found before the first uniform")

    def offline(self, eps):
        """Verification run: a fresh reference fed the step size the transition really used and the uniforms that
        were really served, in order."""
        r0, e_draw = self._momentum_and_slice()
        ref = RefNUTS(self.refs["ref_logd"], self.refs["ref_grad"], self.leaf_source, legacy=(self.iface == "legacy"))
        gen = ref.step(self.x0, r0, e_draw, eps, self.maxd)
        us = list(self.served)
        protocol = None
        result = None
        try:
            next(gen)
            while True:
                if not us:
                    protocol = "reference needs more uniforms than the implementation drew"
                    break
                gen.send(us.pop(0))
        except StopIteration as st:
            result = st.value
            if us:
                protocol = "implementation drew more uniforms than the reference needs"
        return ref, result, protocol

    def end(self, x_post, cached, alpha_ratio, eps_used=None):
        ctx = self.ctx
        self.active = False
        ctx.count("transitions")
        x_post = as_vec(x_post)
        impl_pts = [as_vec(t[0][0]) for t in self.p_logd.trace]
        eps = self.eps if self.eps is not None else eps_used
        try:
            if eps is None:
                raise core.Undecided("step size of the transition unknown")
            ref, self.result, self.protocol_broken = self.offline(float(eps))
            self.ref = ref
        except core.Undecided as e:
            ctx.undecided(str(e))
            return
        if self.result is None and not self.protocol_broken:
            ctx.undecided("reference did not finish")
            return
        # ---- A: evaluation trace (integrator, doubling, stopping rule)
        same_len = len(impl_pts) == len(ref.leaves)
        first_bad = None
        for i, (a, b) in enumerate(zip(impl_pts, ref.leaves)):
            if not close(a, b, 1e-8):
                first_bad = i
                break
        if first_bad is not None or not same_len or self.protocol_broken:
            ctx.violate(PROP, "evaluation_trace", self.sig(history=self.history,
                                                          cls="point" if first_bad is not None else "length_or_protocol"),
                        impl_leaves=len(impl_pts), ref_leaves=len(ref.leaves), first_bad=first_bad,
                        protocol=self.protocol_broken, eps=ref.eps)
            return
        if self.result is None:
            ctx.undecided("reference did not finish")
            return
        cur, astat, stop_reason, depth = self.result
        ctx.hit("stop_" + stop_reason)
        if ref.faulted_leaves:
            ctx.hit("nonfinite_leaf")
        if depth > self.maxd:
            ctx.hit("max_depth_reached")
        # ---- B: selected state
        if not close(x_post, cur, 1e-8):
            faulted_sel = False
            for k in ref.faulted_leaves:
                if close(x_post, ref.leaves[k], 1e-12):
                    faulted_sel = True
            ctx.violate(PROP, "selected_state", self.sig(history=self.history, nonfinite_selected=faulted_sel),
                        got=x_post, expected=cur)
            if faulted_sel:
                self.poisoned = True
            return
        if ref.selected_leaf_index is None:
            ctx.hit("selection_of_x0")
        elif ref.selected_leaf_index in ref.faulted_leaves:
            ctx.violate(PROP, "selected_state", self.sig(history=self.history, nonfinite_selected=True),
                        leaf=ref.selected_leaf_index)
            self.poisoned = True
        # ---- C: cache coherence
        if cached:
            for name, val in cached.items():
                refv = self.refs["ref_logd"](x_post) if name == "current_target_logd" else self.refs["ref_grad"](x_post)
                if not close(np.asarray(val, float), np.asarray(refv, float), 1e-8):
                    ctx.violate(PROP, "cache_coherence", self.sig(cache=name, history=self.history), cached=val, reference=refv)
        # ---- D: acceptance statistic
        if alpha_ratio is not None and not close(float(alpha_ratio), float(astat), 1e-8):
            ctx.violate(PROP, "acceptance_statistic", self.sig(history=self.history), got=float(alpha_ratio),
                        expected=float(astat))
        self.astat = astat


class NutsRun:
    def __init__(self, ctx, case, sim):
        self.ctx, self.case, self.sim = ctx, case, sim
        self.sc = case["scenario"]
        self.setup_seed = core.derive_seed("setup", case["seed"], 0)

    def arm_faults(self, probe, oracle):
        rate = self.sc.get("fault_rate", 0.0)
        if not rate:
            return
        kinds = self.sc.get("fault_kinds", ["nan", "-inf"])
        ctx = self.ctx

        def pred(n, args):
            if not oracle.active:
                return None
            return ctx.sched.choice(kinds) if ctx.sched.random() < rate else None
        probe.fault_pred = pred

    def run(self):
        if self.sc["iface"] == "exp":
            self.run_exp()
        else:
            self.run_legacy()

    # ------------------------------------------------------------------ experimental
    def run_exp(self):
        ctx, sc = self.ctx, self.sc
        box = {}

        def cb(sample, index):
            s, o = box["s"], box["o"]
            cached = {"current_target_logd": s.current_target_logd, "current_target_grad": s.current_target_grad}
            o.end(sample, cached, getattr(s, "_current_alpha_ratio", None))
            # dual averaging / step size after this transition (D, second half)
            self.check_step_size(s, o)
            o.begin(sample, s.get_state()["state"]["_epsilon"])

        with core.setup_stream(self.setup_seed):
            s, info = zoo.build_exp_sampler(ctx, sc, callback=cb)
            s.initialize()
        info["logd"].trace = []
        refs = {"ref_logd": info["ref_logd"], "ref_grad": info["ref_grad"], "p_logd": info["logd"]}
        o = NutsOracle(ctx, self.sim, refs, "exp", lambda: box["s"], s.max_depth)
        box.update(s=s, o=o)
        self.sim.policy = o.policy
        self.arm_faults(info["logd"], o)
        fs = core.SimFS(ctx)
        fs.install()
        self.da = None
        cur_sc = sc
        for op in self.case["ops"]:
            k = op["op"]
            ctx.log("op", k, op.get("n"))
            if k in ("sample", "warmup"):
                self.phase = k
                self.tune_interval = max(int(0.1 * op["n"]), 1) if k == "warmup" else None
                self.idx = 0
                # the pre-hooks set _epsilon_bar; read epsilon after them
                if k == "warmup":
                    s._pre_warmup()
                else:
                    s._pre_sample()
                if k == "warmup":
                    self.da = {"H_bar": s._H_bar, "eps_bar": s._epsilon_bar, "mu": s._mu, "delta": s.opt_acc_rate}
                o.begin(s.current_point, s.get_state()["state"]["_epsilon"])
                try:
                    getattr(s, k)(int(op["n"]))
                finally:
                    o.active = False
                if k == "warmup":
                    o.history = "after_warmup"
            elif k == "interrupt":
                # the target raises at an arbitrary leaf; the same sampler object is used again afterwards
                pr = refs["p_logd"]
                pr.fault_plan[pr.calls + 1 + int(op["j"])] = "raise"
                self.phase = "sample"
                s._pre_sample()
                o.begin(s.current_point, s.get_state()["state"]["_epsilon"])
                try:
                    s.sample(int(op["n"]))
                except core.SimCrash:
                    ctx.hit("transition_interrupted")
                    o.history = "after_interrupt"
                    x = as_vec(s.current_point)
                    for name, val, rf in (("current_target_logd", s.current_target_logd, refs["ref_logd"](x)),
                                          ("current_target_grad", s.current_target_grad, refs["ref_grad"](x))):
                        if not close(np.asarray(val, float), np.asarray(rf, float), 1e-8):
                            ctx.violate(PROP, "cache_coherence", o.sig(cache=name, history=o.history), cached=val, reference=rf)
                finally:
                    o.active = False
                    pr.fault_plan.clear()
            elif k == "snapshot":
                import copy as _copy
                st_ = s.get_state()
                self.saved_state = {"metadata": dict(st_["metadata"]),
                                    "state": {kk: _copy.deepcopy(vv) for kk, vv in st_["state"].items()}}
            elif k == "rollback":
                # an earlier state is restored into the same sampler object after the chain has moved on
                if getattr(self, "saved_state", None) is not None:
                    s.set_state(self.saved_state)
                    o.history = "after_rollback"
                    ctx.fault("state_rollback")
                    x = as_vec(s.current_point)
                    for name, val, rf in (("current_target_logd", s.current_target_logd, refs["ref_logd"](x)),
                                          ("current_target_grad", s.current_target_grad, refs["ref_grad"](x))):
                        if not close(np.asarray(val, float), np.asarray(rf, float), 1e-8):
                            ctx.violate(PROP, "cache_coherence", o.sig(cache=name, history=o.history), cached=val, reference=rf)
            elif k == "retarget_other":
                # the sampler is pointed at ANOTHER target and re-initialised (same start value)
                sc2 = dict(cur_sc, target=dict(cur_sc["target"], zseed=cur_sc["target"]["zseed"] + 101,
                                                kind=cur_sc["target"]["kind"] if not cur_sc["target"]["kind"].startswith("post") else "quartic"))
                cur_sc = sc2
                t2, info2 = zoo.build_exp_target(ctx, sc2)
                info2["logd"].trace = []
                with core.setup_stream(self.setup_seed + 3):
                    s.target = t2
                    s.reinitialize()
                refs.update(ref_logd=info2["ref_logd"], ref_grad=info2["ref_grad"], p_logd=info2["logd"])
                self.arm_faults(info2["logd"], o)
                o.history = "after_retarget_other"
                ctx.fault("retarget_to_another_target")
                x = as_vec(s.current_point)
                for name, val, rf in (("current_target_logd", s.current_target_logd, refs["ref_logd"](x)),
                                      ("current_target_grad", s.current_target_grad, refs["ref_grad"](x))):
                    if not close(np.asarray(val, float), np.asarray(rf, float), 1e-8):
                        ctx.violate(PROP, "cache_coherence", o.sig(cache=name, history=o.history), cached=val, reference=rf)
            elif k == "retarget":
                # the public target setter on an initialised sampler (what a Gibbs orchestrator does): the cached
                # log-density and gradient must still belong to the current point
                s.target = s.target
                o.history = "after_retarget"
                ctx.fault("retarget")
                x = as_vec(s.current_point)
                for name, val, rf in (("current_target_logd", s.current_target_logd, refs["ref_logd"](x)),
                                      ("current_target_grad", s.current_target_grad, refs["ref_grad"](x))):
                    if not close(np.asarray(val, float), np.asarray(rf, float), 1e-8):
                        ctx.violate(PROP, "cache_coherence", o.sig(cache=name, history=o.history), cached=val, reference=rf)
            elif k == "reload":
                s.save_checkpoint("ck")
                with core.setup_stream(self.setup_seed + 1):
                    s2, info2 = zoo.build_exp_sampler(ctx, cur_sc, callback=cb)
                    s2.load_checkpoint("ck")
                info2["logd"].trace = []
                refs["p_logd"] = info2["logd"]
                self.arm_faults(info2["logd"], o)
                s = s2
                box["s"] = s
                o.history = "after_reload"
                ctx.fault("checkpoint_reload")

    def check_step_size(self, s, o):
        ctx = self.ctx
        if getattr(self, "phase", None) == "sample":
            # outside warm-up the step size is frozen at epsilon_bar
            if not close(float(s._epsilon), float(s._epsilon_bar), 1e-12):
                ctx.violate(PROP, "step_size", self.sig_ss("not_frozen_after_warmup"))
            return
        if getattr(self, "phase", None) != "warmup" or self.da is None:
            return
        idx = self.idx
        self.idx += 1
        ti = self.tune_interval
        da = self.da
        if (idx + 1) % ti != 0:
            return                      # no tuning at this index
        if o.astat is None:
            # this transition was not judged (undecided / already reported): re-synchronise the reference recursion
            da["H_bar"], da["eps_bar"] = s._H_bar, s._epsilon_bar
            return
        k = idx // ti + 1
        gamma, t0, kappa = 0.05, 10, 0.75
        eta1 = 1 / (k + t0)
        da["H_bar"] = (1 - eta1) * da["H_bar"] + eta1 * (da["delta"] - o.astat)
        eps = math.exp(da["mu"] - (math.sqrt(k) / gamma) * da["H_bar"])
        eta = k ** (-kappa)
        da["eps_bar"] = math.exp(eta * math.log(eps) + (1 - eta) * math.log(da["eps_bar"]))
        ctx.count("tune_checks")
        if not (close(float(s._epsilon), eps, 1e-8) and close(float(s._epsilon_bar), da["eps_bar"], 1e-8)):
            ctx.violate(PROP, "step_size", self.sig_ss("dual_averaging"), got=[float(s._epsilon), float(s._epsilon_bar)],
                        expected=[eps, da["eps_bar"]], k=k)
            da["H_bar"], da["eps_bar"] = s._H_bar, s._epsilon_bar

    def sig_ss(self, cls):
        return {"engine": "nuts", "iface": self.sc["iface"], "cls": cls}

    # ------------------------------------------------------------------ legacy
    def run_legacy(self):
        ctx, sc = self.ctx, self.sc
        box = {}

        def cb(sample, index):
            o, s = box["o"], box["s"]
            eps_used = float(s.epsilon_list[-1]) if len(s.epsilon_list) else None
            o.end(np.array(sample, float), None, None, eps_used=eps_used)
            o.begin(np.array(sample, float), None)          # online placement infers the step size from the first leaf
            o.eps_hint = eps_used

        with core.setup_stream(self.setup_seed):
            s, info = zoo.build_legacy_sampler(ctx, sc, callback=cb)
        info["logd"].trace = []
        refs = {"ref_logd": info["ref_logd"], "ref_grad": info["ref_grad"], "p_logd": info["logd"]}
        o = NutsOracle(ctx, self.sim, refs, "legacy", lambda: s, s.max_depth)
        box.update(o=o, s=s)
        self.arm_faults(info["logd"], o)
        op = self.case["ops"][0]
        ctx.log("op", "sample", op["N"], op["Nb"])
        # the constructor-time / first-call step-size search draws from the tape before the first transition;
        # transitions are recognised by their standard_normal + exponential + uniforms pattern
        self.sim.policy = o.policy
        o.begin(s.x0, None)
        o.active = False
        started = {"v": False}
        orig_policy = o.policy

        def policy(name, a, k, v):
            # activate at the slice draw of the first transition (after _FindGoodEpsilon's own draws)
            if (name == "exponential" or (name == "uniform" and np.size(v) == 1)) and not started["v"]:
                started["v"] = True
                rec = self.sim.recording
                # the momentum draw of this transition is the last standard_normal recorded
                o.mark = max(0, len(rec) - 1)
                while o.mark > 0 and rec[o.mark][0] != "standard_normal":
                    o.mark -= 1
                info["logd"].trace.clear()
                o.active = True
                return None
            return orig_policy(name, a, k, v)
        self.sim.policy = policy
        try:
            s.sample(int(op["N"]), int(op["Nb"]))
        except NameError:
            ctx.count("legacy_nan_potential_raised")
        finally:
            o.active = False


def gen_case(r, tier):
    iface = r.choice(["exp", "exp", "legacy"])
    dim = r.randint(1, 3)
    tgt = {"kind": r.choice(zoo.DENSITY_KINDS + ["post", "post_const", "post_deconv", "post_fd", "post_udl"]), "dim": dim, "zseed": r.randrange(1, 10 ** 6)}
    ip = [round(r.uniform(-1, 1), 3) for _ in range(dim)]
    sc = {"iface": iface, "kind": "NUTS", "target": tgt, "knobs": {}}
    maxd = r.choice([0, 1, 2, 3, 4, 5])
    if iface == "exp":
        sc["knobs"] = {"max_depth": maxd, "step_size": r.choice([None, 1e-3, 0.05, 0.3, 0.9, 2.5, 10.0]),
                       "initial_point": ip}
        if r.random() < 0.3:
            sc["knobs"]["opt_acc_rate"] = r.choice([0.5, 0.8])
        ops = []
        for _ in range(r.randint(1, 4)):
            x = r.random()
            if x < 0.5:
                ops.append({"op": "sample", "n": r.randint(1, 12)})
            elif x < 0.82:
                ops.append({"op": "warmup", "n": r.randint(1, 25)})
            elif x < 0.90:
                ops.append({"op": "reload"})
            elif x < 0.93:
                ops.append({"op": "retarget"})
            elif x < 0.96:
                ops.append({"op": "retarget_other"})
            else:
                ops.append({"op": "interrupt", "j": r.randint(0, 25), "n": r.randint(1, 4)})
        if r.random() < 0.15:
            ops.append({"op": "interrupt", "j": r.randint(0, 25), "n": r.randint(1, 4)})
        if r.random() < 0.2:
            pre = [{"op": "sample", "n": r.randint(1, 6)}, {"op": "snapshot"}, {"op": "sample", "n": r.randint(2, 8)},
                   {"op": "rollback"}]
            if r.random() < 0.5:
                # the SAME saved state is restored a second time after the chain has moved on again
                pre += [{"op": "sample", "n": r.randint(2, 8)}, {"op": "rollback"}]
            ops = pre + ops
        if not any(o["op"] in ("sample", "warmup") for o in ops) or ops[-1]["op"] in ("reload", "retarget", "retarget_other", "rollback", "interrupt"):
            ops.append({"op": "sample", "n": r.randint(1, 8)})
    else:
        adapt = r.choice([True, False, 0.05, 0.3, 0.9, 2.5])
        if r.random() < 0.1:
            ip = [int(round(3 * v)) for v in ip]         # an integer-typed start vector
        sc["knobs"] = {"max_depth": maxd, "adapt_step_size": adapt, "x0": ip}
        Nb = r.randint(1, 10) if adapt is True else r.choice([0, 0, 3])
        ops = [{"op": "sample", "N": r.randint(2, 14), "Nb": Nb}]
    if r.random() < 0.1:
        # start far in the tail: log-density of order -1e3 ... -1e6 (exp() of the Hamiltonian underflows)
        far = [round(v * r.choice([40.0, 80.0]), 2) for v in ip]
        far = [f if abs(f) > 20 else 45.0 for f in far]
        sc["knobs"]["initial_point" if iface == "exp" else "x0"] = far
    sc["fault_rate"] = r.choice([0.0, 0.0, 0.03, 0.1])
    sc["fault_kinds"] = r.choice([["nan"], ["-inf"], ["nan", "-inf"], ["nan", "-inf", "inf"]])
    return {"scenario": sc, "ops": ops}


class NutsEngine(EngineBase):
    name = "nuts"
    real = ["cuqi.experimental.mcmc.NUTS: step/_BuildTree/_Leapfrog/tune/warmup/sample/_pre_warmup/_pre_sample/"
            "save_checkpoint/load_checkpoint (unmodified)", "cuqi.sampler.NUTS: _sample/_BuildTree/_Leapfrog (unmodified)"]
    stub = ["global numpy.random tape with an adversarial policy at merge and top-level uniforms",
            "target log-density (probe: reference value or NaN/-inf/+inf on schedule) and gradient (probe)",
            "callback (delimits transitions)", "in-memory file system for the reload history"]
    assumptions = ["invariance of the target is the published theorem about the algorithm the implementation is shown to "
                   "refine transition by transition; it is not measured",
                   "the reference consumes uniforms in the canonical order of the recursion (direction, post-order merges, "
                   "top-level only when s'=1); an unrecognised protocol is counted as undecided, not as a violation",
                   "for the legacy interface the step size is inferred from the first leapfrog step of each transition"]
    rule = ("nuts: target (4 density kinds, dim 1-3), max_depth 0-5, step size from 1e-3 to 10 or adaptive, ops over "
            "sample/warmup/reload (experimental) or one sample(N, Nb) call (legacy), non-finite leaf faults; "
            "merge/top-level uniforms are placed next to the reference's thresholds")

    def gen(self, r, tier):
        return gen_case(r, tier)

    def run(self, case, ctx):
        sim = core.SimRandom(ctx)
        sim.recording = []
        sim.install()
        try:
            NutsRun(ctx, case, sim).run()
        finally:
            sim.policy = None
            sim.uninstall()

    def shrink(self, case):
        import json
        for i, op in enumerate(case["ops"]):
            for key in ("n", "N", "Nb"):
                if key in op and op[key] > 1:
                    for v in sorted({op[key] // 2, op[key] - 1}):
                        if 1 <= v < op[key]:
                            c = json.loads(json.dumps(case)); c["ops"][i][key] = v; yield c
        if case["scenario"].get("fault_rate"):
            c = json.loads(json.dumps(case)); c["scenario"]["fault_rate"] = 0.0; yield c
        md = case["scenario"]["knobs"].get("max_depth", 0)
        if md > 0:
            c = json.loads(json.dumps(case)); c["scenario"]["knobs"]["max_depth"] = md - 1; yield c
