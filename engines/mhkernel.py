"""Engine `mhkernel` (C02): Metropolis-type kernels accept with exactly the MH probability.

The simulator owns the kernel's random inputs.  When the sampler asks for the scalar uniform of
its accept/reject step, the event log already holds the proposal draw and the target evaluation at
the proposal; an *adversarial scheduler* infers the proposal mechanism actually used, computes the
Metropolis-Hastings probability alpha for that mechanism from the pure reference density, and
serves a uniform just below alpha (must accept), just above (must reject) or the tape value.
Transitions are delimited by the sampler's callback; every oracle is local (the reference
re-synchronises to the implementation's post-state).  Faults: the target returns NaN / -inf at the
proposal.  Histories: fresh, after warm-up/tuning, after state round trip, after checkpoint reload,
after reinitialise.
"""
import math

import numpy as np

from sim import core, zoo
from sim.core import as_vec, bit_equal, close
from .chain import EngineBase

PROP = "C02"
DELTA = 1e-6


def _logmvn_quad(x, mean, Cinv):
    d = x - mean
    return -0.5 * float(d @ Cinv @ d)


class KernelOracle:
    """Adversarial accept-site policy + per-transition verdicts for one sampler object."""

    def __init__(self, ctx, sim, family, iface, kind, refs, get_scale, extra_sig=None):
        self.ctx, self.sim = ctx, sim
        self.family, self.iface, self.kind = family, iface, kind
        self.refs = refs                      # ref_logd, ref_grad, ref_loglik, prior (m, C, Cinv)
        self.get_scale = get_scale
        self.extra_sig = extra_sig or {}
        self.x = None                         # reference's view of the current state
        self.active = False
        self.history = "fresh"
        self.reset_transition()

    # ------------------------------------------------------------------ bookkeeping
    def reset_transition(self):
        self.sites = []                       # decisions of this transition
        self.x_run = None if self.x is None else self.x.copy()
        self.rec_mark = len(self.sim.recording) if self.sim.recording is not None else 0
        for p in self.probes():
            p.trace.clear()

    def probes(self):
        return [p for p in (self.refs.get("p_logd"), self.refs.get("p_forward"), self.refs.get("p_grad")) if p is not None]

    def sig(self, oracle_extra=None, **k):
        d = {"engine": "mhkernel", "iface": self.iface, "kind": self.kind}
        if getattr(self, "poisoned", False):
            # a non-finite proposal was accepted earlier in this run (reported then): the implementation's cached
            # density is NaN/-inf from here on, so later verdicts are consequences, signed as such
            d["after_nonfinite_accept"] = True
        d.update(self.extra_sig)
        d.update(k)
        return d

    def begin(self, x):
        self.x = as_vec(x)
        self.reset_transition()
        self.active = True

    # ------------------------------------------------------------------ reference target
    def logpi(self, x):
        if self.family == "pcn":
            m, Cinv = self.refs["prior_mean"], self.refs["prior_Cinv"]
            return self.refs["ref_loglik"](x) + _logmvn_quad(x, m, Cinv)
        return self.refs["ref_logd"](x)

    # ------------------------------------------------------------------ the policy (accept site)
    def policy(self, name, args, kwargs, tape_value):
        if not self.active:
            return None
        is_site = (name == "rand" and not args and not kwargs) or \
                  (name == "uniform" and np.size(tape_value) == 1 and self.kind == "MALA" and self.iface == "legacy")
        if not is_site:
            return None
        ctx = self.ctx
        try:
            la, xs, faulted = self._log_alpha()
        except core.Undecided as e:
            if str(e) != "__already_judged__":
                ctx.undecided(str(e))
            self.sites.append({"expect": None})
            return None
        tape_u = float(np.ravel(tape_value)[0])
        guard = DELTA + 1e-9 * (abs(self._mag) if math.isfinite(self._mag) else 0.0)
        r = ctx.sched.random()
        expect = None
        if faulted or la is None or math.isnan(la) or la == -math.inf:
            # non-finite proposal: must not be accepted whatever u is -> serve a tiny (but positive) u
            u = 1e-300
            expect = False
            ctx.hit("decision_with_nonfinite_proposal")
        elif la > -600:
            if r < 0.4:
                u = math.exp(la - guard)
                expect = True
                if la < -4:
                    ctx.hit("accept_with_alpha_near_0")
            elif r < 0.8 and la + guard < 0:
                u = math.exp(la + guard)
                expect = False
                if la > -0.05:
                    ctx.hit("reject_with_alpha_near_1")
            else:
                u = tape_u
                if u > 0 and abs(math.log(u) - la) > guard:
                    expect = math.log(u) < la
            if not (0.0 < u < 1.0):
                u = tape_u
                expect = (math.log(u) < la) if (u > 0 and abs(math.log(u) - la) > guard) else None
        else:
            u = tape_u
            expect = False if u > 0 else None
        self.sites.append({"expect": expect, "la": la, "xs": xs, "u": u, "faulted": faulted})
        ctx.count("decisions")
        ctx.log("accept_site", self.kind, la if la is not None else "nan", u, expect)
        ctx.nontrivial = True
        if expect is True and self.x_run is not None:
            self.x_run = xs.copy() if self.family != "cwmh" else self._cw_accept(xs)
        if np.ndim(tape_value) == 0:
            return u
        return np.full(np.shape(tape_value), u)

    def _cw_accept(self, xs):
        return xs.copy()

    def _last_eval(self, probe):
        if not probe.trace:
            raise core.Undecided("no evaluation before accept site")
        a, val, kind = probe.trace[-1]
        return as_vec(a[0]), val, kind

    def _draws(self, name):
        return [d for d in self.sim.recording[self.rec_mark:] if d[0] == name]

    def _log_alpha(self):
        """log MH acceptance probability for the mechanism inferred from the observation."""
        fam = self.family
        x = self.x_run
        if fam in ("rw", "cwmh"):
            xs, val, fk = self._last_eval(self.refs["p_logd"])
            lx, lxs = self.refs["ref_logd"](x), self.refs["ref_logd"](xs)
            self._mag = abs(lx) + abs(lxs)
            if fam == "cwmh":
                diff = np.flatnonzero(xs != x)
                if diff.size > 1:
                    raise core.Undecided("cwmh proposal changes more than one component")
                # the proposed component is the recorded (symmetric) draw itself: a component that is some other function
                # of the draw - rounded, clipped, cast - is a different mechanism than the one the ratio is computed for
                dr = self._draws("normal")
                if diff.size == 1 and dr and self.refs.get("proposal_is_default", True):
                    v = as_vec(dr[-1][1])
                    j = int(diff[0])
                    prop_j = v[j] if v.size == x.size else (v[0] if v.size == 1 else None)
                    if prop_j is not None and np.isfinite(prop_j) and not close(xs[j], prop_j, 1e-12):
                        self.ctx.violate(PROP, "proposed_component_is_not_the_draw", self.sig(), component=j,
                                         evaluated=float(xs[j]), drawn=float(prop_j))
            else:
                # x* = x + kappa*xi with xi the recorded standard draw: symmetric random walk
                dr = self._draws("randn") or self._draws("standard_normal") or self._draws("normal")
                if not dr:
                    raise core.Undecided("rw proposal draw not found")
                xi = as_vec(dr[-1][1])
                if xi.shape != x.shape:
                    raise core.Undecided("rw draw shape")
                kappa = float((xs - x) @ xi / (xi @ xi))
                if not close(xs, x + kappa * xi, 1e-9):
                    # a user-supplied zero-mean Gaussian proposal N(0, C): the increment is kappa*L*xi with L L' = C
                    Cinv = self.refs.get("proposal_Cinv")
                    sc_ = float(np.ravel(self.get_scale())[0]) if Cinv is not None else None
                    if Cinv is None or not sc_ or not close(((xs - x) / sc_) @ Cinv @ ((xs - x) / sc_), xi @ xi, 1e-7):
                        raise core.Undecided("proposal does not fit x + kappa*xi")
            if fk is not None or not np.isfinite(lxs):
                if fk is None:
                    self.ctx.hit("proposal_outside_support")
                return None, xs, True           # NaN / -inf at the proposal (injected or genuine): never accepted
            return min(0.0, lxs - lx), xs, False
        if fam == "mala":
            xs, val, fk = self._last_eval(self.refs["p_logd"])
            dr = self._draws("normal")
            if not dr:
                raise core.Undecided("mala noise draw not found")
            name, xi, a, k = dr[-1]
            xi = as_vec(xi)
            std_v = np.ravel(np.asarray(a[1] if len(a) > 1 else k.get("scale"), float))
            std = float(std_v[0])
            eps = std * std
            g = self.refs["ref_grad"](x)
            drift = xs - x - xi
            if std_v.size == x.size and x.size > 1 and not np.allclose(std_v, std_v[0]):
                # per-component step sizes: x*_i = x_i + (eps_i/2) g_i + sqrt(eps_i) z_i, q(x*|x) = prod_i N(x*_i; mu_i, eps_i)
                eps_v = std_v ** 2
                if not close(drift, 0.5 * eps_v * g, 1e-9) and np.linalg.norm(drift - 0.5 * eps_v * g) > 1e-9 * (1 + np.linalg.norm(drift)):
                    raise core.Undecided("proposal does not fit x + (eps/2)*grad + xi (vector step)")
                lx, lxs = self.refs["ref_logd"](x), self.refs["ref_logd"](xs)
                self._mag = abs(lx) + abs(lxs)
                if fk is not None or not np.isfinite(lxs):
                    return None, xs, True
                gs = self.refs["ref_grad"](xs)
                q_fwd = -0.5 * float(np.sum((xs - (x + 0.5 * eps_v * g)) ** 2 / eps_v))
                q_bwd = -0.5 * float(np.sum((x - (xs + 0.5 * eps_v * gs)) ** 2 / eps_v))
                self._mag += abs(q_fwd) + abs(q_bwd)
                self.ctx.hit("mala_vector_step")
                return min(0.0, lxs - lx + q_bwd - q_fwd), xs, False
            gg = float(g @ g)
            # drift coefficient of the mechanism, identified from the draw; where the gradient vanishes exactly it is not
            # identifiable from this transition and the Langevin value eps/2 is taken (it still enters the REVERSE density)
            c = float(drift @ g / gg) if gg > 0 else 0.5 * eps
            if not close(drift, c * g, 1e-9) and np.linalg.norm(drift - c * g) > 1e-9 * (1 + np.linalg.norm(drift)):
                raise core.Undecided("proposal does not fit x + c*grad + xi")
            lx, lxs = self.refs["ref_logd"](x), self.refs["ref_logd"](xs)
            self._mag = abs(lx) + abs(lxs)
            if fk is not None or not np.isfinite(lxs):
                if fk is None:
                    self.ctx.hit("proposal_outside_support")
                return None, xs, True
            pgr = self.refs.get("p_grad")
            if pgr is not None and pgr.trace and pgr.trace[-1][2] is not None and bit_equal(as_vec(pgr.trace[-1][0][0]), xs):
                # the gradient at the proposal is not a number: the reverse proposal density, hence the MH ratio, is undefined
                # and the proposal must not be accepted (the chain could never leave such a point again)
                self.ctx.hit("proposal_with_nan_gradient")
                return None, xs, True
            gs = self.refs["ref_grad"](xs)
            q_fwd = -0.5 * float(np.sum((xs - (x + c * g)) ** 2)) / eps      # q(x*|x)
            q_bwd = -0.5 * float(np.sum((x - (xs + c * gs)) ** 2)) / eps     # q(x|x*)
            self._mag += abs(q_fwd) + abs(q_bwd)
            return min(0.0, lxs - lx + q_bwd - q_fwd), xs, False
        if fam == "pcn":
            xs, val, fk = self._last_eval(self.refs["p_forward"])
            s = float(self.get_scale())
            a, b = math.sqrt(max(0.0, 1 - s * s)), s
            m, C, Cinv = self.refs["prior_mean"], self.refs["prior_C"], self.refs["prior_Cinv"]
            # mechanism family: x* | x ~ N(a*x + d, b^2 C) with a constant offset d.  The offset is identified from
            # the recorded standard-normal draw e: the noise n = x* - a*x - d must satisfy n' C^-1 n = b^2 e'e.
            dr = self._draws("randn")
            if not dr:
                raise core.Undecided("pcn prior draw not found")
            e = as_vec(dr[-1][1])
            d = None
            for cand in ((1 - a) * m, b * m):      # Crank-Nicolson about the prior mean / about the origin
                nvec = xs - a * x - cand
                if close(nvec @ Cinv @ nvec, b * b * (e @ e), 1e-7):
                    d = cand
                    break
            if d is None:
                # the likelihood-only ratio of pCN is the MH ratio only for the prior-reversible proposal: noise with the
                # prior's covariance about a Crank-Nicolson mean.  A draw that has another covariance is another mechanism.
                quad_ = float((xs - a * x - (1 - a) * m) @ Cinv @ (xs - a * x - (1 - a) * m))
                if np.isfinite(quad_) and 0 < s <= 1 and np.all(np.isfinite(xs)):
                    self.ctx.violate(PROP, "pcn_proposal_not_prior_reversible", self.sig(), quad=quad_, expected=float(b * b * (e @ e)))
                    raise core.Undecided("__already_judged__")
                raise core.Undecided("pcn proposal is not N(a*x + d, b^2 C)")
            ll, lls = self.refs["ref_loglik"](x), self.refs["ref_loglik"](xs)
            lp, lps = _logmvn_quad(x, m, Cinv), _logmvn_quad(xs, m, Cinv)
            binv = Cinv / (b * b)
            q_fwd = _logmvn_quad(xs, a * x + d, binv)
            q_bwd = _logmvn_quad(x, a * xs + d, binv)
            self._mag = abs(ll) + abs(lls) + abs(lp) + abs(lps) + abs(q_fwd) + abs(q_bwd)
            if fk is not None or not np.isfinite(lls):
                if fk is None:
                    self.ctx.hit("proposal_of_zero_likelihood")
                return None, xs, True           # a proposal of zero likelihood is never accepted, whatever the current state
            if not np.isfinite(ll):
                self.ctx.hit("current_state_of_zero_likelihood")
                return 0.0, xs, False           # from a state of zero likelihood every feasible proposal is accepted
            return min(0.0, lls + lps + q_bwd - ll - lp - q_fwd), xs, False
        raise core.Undecided("family")

    # ------------------------------------------------------------------ verdicts at end of transition
    def end(self, x_post, acc=None, cached=None):
        """x_post: implementation's state after the transition; cached: dict name->value."""
        ctx = self.ctx
        self.active = False
        x_post = as_vec(x_post)
        ctx.count("transitions")
        sites = self.sites
        decided = [s for s in sites if s.get("expect") is not None]
        if self.family == "cwmh":
            self._end_cwmh(x_post, acc)
        elif sites:
            s = sites[-1]
            if s.get("expect") is not None:
                moved = not bit_equal(x_post, self.x)
                if s["expect"] and not bit_equal(x_post, s["xs"]):
                    ctx.violate(PROP, "accept_decision", self.sig(expected="accept", faulted=False,
                                                                history=self.history),
                                la=s["la"], u=s["u"])
                elif (not s["expect"]) and moved:
                    ctx.violate(PROP, "accept_decision",
                                self.sig(expected="reject", faulted=bool(s["faulted"]), history=self.history),
                                la=s["la"], u=s["u"])
                    if s["faulted"]:
                        self.poisoned = True
                if acc is not None and bool(np.all(np.asarray(acc) == 1)) != bool(s["expect"]) and not moved == bool(s["expect"]):
                    pass
            elif not (bit_equal(x_post, self.x) or bit_equal(x_post, s.get("xs", self.x))):
                ctx.violate(PROP, "post_state_neither_current_nor_proposal", self.sig(history=self.history))
        elif self.kind == "ULA":
            # unadjusted: always moves to the proposal, except that a non-finite proposal is never accepted
            tr = self.refs["p_logd"].trace
            if tr and tr[-1][2] is not None and not bit_equal(x_post, self.x):
                ctx.violate(PROP, "accept_decision", self.sig(expected="reject", faulted=True, history=self.history))
            ctx.count("decisions")
        else:
            ctx.undecided("no accept site in transition")
        # cache coherence: cached values belong to the (implementation's) post-state
        if cached:
            self.check_cache(x_post, cached, "after_transition")
        self.x = x_post
        self.reset_transition()

    def _end_cwmh(self, x_post, acc):
        ctx = self.ctx
        if any(s.get("expect") is None for s in self.sites):
            return                        # an undecided component: post-state is not predicted
        if self.x_run is not None and not bit_equal(x_post, self.x_run):
            faulted = any(s.get("faulted") for s in self.sites)
            ctx.violate(PROP, "accept_decision", self.sig(expected="componentwise", faulted=faulted,
                                                        history=self.history),
                        predicted=self.x_run, got=x_post)
            if faulted:
                self.poisoned = True

    def check_cache(self, x, cached, when):
        ctx = self.ctx
        x = as_vec(x)
        for name, val in cached.items():
            if val is None:
                continue
            if name == "current_target_logd":
                if self.refs.get("ref_logd") is None:
                    continue                      # this kernel family has no full-target reference (pCN caches the likelihood)
                ref = self.refs["ref_logd"](x)
            elif name == "current_target_grad":
                ref = self.refs["ref_grad"](x)
            elif name == "current_likelihood_logd":
                ref = self.refs["ref_loglik"](x)
            else:
                continue
            ctx.count("cache_checks")
            if not close(np.asarray(val, float), np.asarray(ref, float), 1e-9):
                ctx.violate(PROP, "cache_coherence", self.sig(cache=name, when=when, history=self.history),
                            cached=val, reference=ref)


# =========================================================================== scenario

FAMILY = {"MH": "rw", "CWMH": "cwmh", "PCN": "pcn", "pCN": "pcn", "MALA": "mala", "ULA": "ula"}


def _prior_moments(rec):
    n = rec["dim"]
    pm = rec.get("prior_mean", 0.0)
    k = rec.get("prior", "gauss")
    if k == "gauss":
        C = np.eye(n) * rec.get("prior_cov", 0.8)
    elif k == "gauss_vec":
        C = np.diag(np.linspace(0.5, 1.5, n))
    elif k == "gauss_sqrtprec_full":
        rs = np.random.RandomState(rec["zseed"] + 7)
        R = np.eye(n) + rs.randn(n, n) * 0.3
        C = np.linalg.inv(R.T @ R)
    else:
        rs = np.random.RandomState(rec["zseed"] + 7)
        B = rs.randn(n, n) * 0.3
        C = np.eye(n) + B @ B.T
    return pm * np.ones(n), C, np.linalg.inv(C)


def gen_case(r, tier):
    iface = r.choice(["exp", "exp", "legacy"])
    if iface == "exp":
        kind = r.choice(["MH", "CWMH", "PCN", "MALA", "MALA", "ULA"])
        sc = zoo.gen_exp_scenario(r, kind, dim_max=5)
        ops = []
        for _ in range(r.randint(1, 5)):
            x = r.random()
            if x < 0.55:
                ops.append({"op": "sample", "n": r.randint(3, 25)})
            elif x < 0.75:
                ops.append({"op": "warmup", "n": r.randint(2, 25)})
            elif x < 0.83:
                ops.append({"op": "state_roundtrip"})
            elif x < 0.88:
                ops.append({"op": "reload"})
            elif x < 0.905:
                ops.append({"op": "retarget"})
            elif x < 0.925:
                ops.append({"op": "retarget_other"})
            elif x < 0.95:
                ops.append({"op": "set_scale", "factor": r.choice([0.3, 0.5, 2.0])})
            elif x < 0.965:
                ops.append({"op": "interrupt", "j": r.randint(0, 12), "n": r.randint(2, 6)})
            elif x < 0.985:
                ops.append({"op": "snapshot"})
                ops.append({"op": "sample", "n": r.randint(2, 12)})
                ops.append({"op": "rollback"})
            else:
                ops.append({"op": "reinitialize"})
        if not any(o["op"] in ("sample", "warmup") for o in ops):
            ops.append({"op": "sample", "n": r.randint(3, 25)})
        if r.random() < 0.15:
            ops = [{"op": "sample", "n": r.randint(2, 8)}, {"op": "snapshot"}, {"op": "sample", "n": r.randint(3, 15)},
                   {"op": "rollback"}] + ops
        if r.random() < 0.2:
            ops.append({"op": "interrupt", "j": r.randint(0, 12), "n": r.randint(2, 6)})
        if ops[-1]["op"] not in ("sample", "warmup"):
            ops.append({"op": "sample", "n": r.randint(2, 10)})
    else:
        kind = r.choice(["MH", "CWMH", "pCN", "MALA"])
        sc = zoo.gen_legacy_scenario(r, kind)
        method = r.choice(["sample", "sample", "sample_adapt"]) if kind != "MALA" else "sample"
        N = r.randint(10, 40) if method == "sample_adapt" else r.randint(3, 40)
        if method == "sample_adapt" and kind in ("MH", "pCN") and r.random() < 0.3:
            sc["knobs"]["scale"] = None          # sample_adapt then starts from its default scale 0.1
        ops = [{"op": method, "N": N, "Nb": r.choice([0, 0, 3])}]
        if r.random() < 0.3:
            ops.append({"op": "set_scale", "factor": r.choice([0.3, 0.5, 2.0])})
            ops.append({"op": method, "N": r.randint(10, 25), "Nb": 0})
        if r.random() < 0.3:
            st_ = {"op": "step", "n": r.randint(3, 25)}
            ops = [st_] if (r.random() < 0.5 and sc["knobs"].get("scale", 1) is not None) else ops + [st_]
    if kind == "MALA" and sc["target"].get("dim", 1) > 1 and r.random() < 0.12:
        sc["knobs"]["scale"] = [round(r.uniform(0.01, 0.3), 3) for _ in range(sc["target"]["dim"])]
        sc["vector_step"] = True
    sc["iface"] = iface
    sc["fault_rate"] = r.choice([0.0, 0.0, 0.05, 0.15])
    sc["fault_kind"] = r.choice(["nan", "-inf", "grad_nan"] if kind == "MALA" else ["nan", "-inf"])
    return {"scenario": sc, "ops": ops}


class MHRun:
    def __init__(self, ctx, case, sim):
        self.ctx, self.case, self.sim = ctx, case, sim
        self.sc = case["scenario"]
        self.kind, self.iface = self.sc["kind"], self.sc["iface"]
        self.setup_seed = core.derive_seed("setup", case["seed"], 0)

    def _refs(self, info):
        refs = {"ref_logd": info.get("ref_logd"), "ref_grad": info.get("ref_grad"),
                "ref_loglik": info.get("ref_loglik"), "p_logd": info.get("logd"),
                "p_forward": info.get("forward"), "p_grad": info.get("grad"), "proposal_Cinv": info.get("proposal_Cinv")}
        if FAMILY[self.kind] == "pcn":
            m, C, Cinv = _prior_moments(self.sc["target"])
            refs.update(prior_mean=m, prior_C=C, prior_Cinv=Cinv)
        for p in (refs["p_logd"], refs["p_forward"], refs.get("p_grad")):
            if p is not None:
                p.trace = []
        return refs

    def _arm_faults(self, probe, oracle):
        rate, kind = self.sc["fault_rate"], self.sc["fault_kind"]
        if not rate or probe is None:
            return
        ctx = self.ctx

        def pred(n, args):
            if not oracle.active:
                return None                      # never on the current point / outside a transition
            x = as_vec(args[0])
            if oracle.x_run is not None and bit_equal(x, oracle.x_run):
                return None
            if kind == "grad_nan":
                return None                      # (the log-density stays finite; only the gradient misbehaves, see below)
            return kind if ctx.sched.random() < rate else None
        probe.fault_pred = pred
        # outside the support the gradient is not finite either: when the log-density evaluation at a point was
        # faulted, the gradient evaluated next at the same point returns NaN
        pg = oracle.refs.get("p_grad")
        if pg is not None and probe is oracle.refs.get("p_logd"):
            def gpred(n, args):
                tr = probe.trace
                if tr and tr[-1][2] is not None and bit_equal(tr[-1][0][0], args[0]):
                    return "nan"
                if kind == "grad_nan" and oracle.active and oracle.x_run is not None and \
                        not bit_equal(as_vec(args[0]), oracle.x_run) and ctx.sched.random() < rate:
                    return "nan"                 # finite log-density, gradient not a number (edge of a support, overflow)
                return None
            pg.fault_pred = gpred

    def run(self):
        try:
            if self.iface == "exp":
                self._run_exp()
            else:
                self._run_legacy()
        except ValueError:
            if not self.sc.get("vector_step"):
                raise
            # per-component step sizes for MALA: the library refuses them (ambiguous truth value); a refusal is fine,
            # a run that goes through is judged by the per-component reference
            self.ctx.count("mala_vector_step_refused")

    # ------------------------------------------------------------------ experimental
    def _cached(self, s):
        out = {}
        for k in ("current_target_logd", "current_target_grad", "current_likelihood_logd"):
            if k in s._STATE_KEYS:
                out[k] = getattr(s, k)
        return out

    def _run_exp(self):
        ctx, sc = self.ctx, self.sc
        box = {}

        def cb(sample, index):
            s, o = box["s"], box["o"]
            o.end(sample, None, self._cached(s))
            o.begin(sample)

        with core.setup_stream(self.setup_seed):
            s, info = zoo.build_exp_sampler(ctx, sc, callback=cb)
            s.initialize()
        refs = self._refs(info)
        extra = {}
        if FAMILY[self.kind] == "pcn":
            extra["prior_mean_nonzero"] = bool(np.any(refs["prior_mean"] != 0))
        o = KernelOracle(ctx, self.sim, FAMILY[self.kind], "exp", self.kind, refs,
                         get_scale=lambda: np.ravel(box["s"].scale)[0], extra_sig=extra)
        box.update(s=s, o=o)
        self.sim.policy = o.policy
        self._arm_faults(refs["p_logd"] if FAMILY[self.kind] != "pcn" else refs["p_forward"], o)
        fs = core.SimFS(ctx)
        fs.install()
        cur_sc = sc                       # the scenario of the target the live sampler currently points at
        o.check_cache(s.current_point, self._cached(s), "after_initialize")
        if isinstance(sc["knobs"].get("scale"), list):
            ctx.hit("per_component_scale")
        if extra.get("prior_mean_nonzero"):
            ctx.hit("pcn_prior_mean_nonzero")
        for op in self.case["ops"]:
            k = op["op"]
            ctx.log("op", k, op.get("n"))
            if k in ("sample", "warmup"):
                o.begin(s.current_point)
                if k == "warmup":
                    scale_before = as_vec(s.scale) if hasattr(s, "scale") else None
                try:
                    getattr(s, k)(int(op["n"]))
                finally:
                    o.active = False
                if k == "warmup":
                    o.history = "after_warmup"
                    if scale_before is not None and not bit_equal(scale_before, s.scale):
                        ctx.hit("decision_after_tune_changed_scale")
            elif k == "state_roundtrip":
                s.set_state(s.get_state())
                o.history = "after_state_roundtrip"
            elif k == "reload":
                s.save_checkpoint("ck")
                with core.setup_stream(self.setup_seed):
                    s2, info2 = zoo.build_exp_sampler(ctx, cur_sc, callback=cb)
                    s2.load_checkpoint("ck")
                refs2 = self._refs(info2)
                o.refs.update(p_logd=refs2["p_logd"], p_forward=refs2["p_forward"], p_grad=refs2.get("p_grad"))
                self._arm_faults(refs2["p_logd"] if FAMILY[self.kind] != "pcn" else refs2["p_forward"], o)
                s = s2
                box["s"] = s
                o.history = "after_reload"
                ctx.hit("decision_right_after_reload")
                ctx.fault("checkpoint_reload")
            elif k == "reinitialize":
                with core.setup_stream(self.setup_seed):
                    s.reinitialize()
                o.history = "after_reinitialize"
            elif k == "interrupt":
                # the user's target raises (Ctrl-C, transient failure) at an arbitrary evaluation inside a transition;
                # the same sampler object is then used again: no transition was completed by the aborted step, so the
                # state and its cached density/gradient must still belong together
                pr = refs["p_logd"] if FAMILY[self.kind] != "pcn" else refs["p_forward"]
                pr = o.refs["p_logd"] if FAMILY[self.kind] != "pcn" else o.refs["p_forward"]
                pr.fault_plan[pr.calls + 1 + int(op["j"])] = "raise"
                o.begin(s.current_point)
                try:
                    s.sample(int(op["n"]))
                except core.SimCrash:
                    ctx.hit("transition_interrupted")
                    o.history = "after_interrupt"
                finally:
                    o.active = False
                    pr.fault_plan.clear()
            elif k == "snapshot":
                self.saved_state = s.get_state()
                import copy as _copy
                self.saved_state = {"metadata": dict(self.saved_state["metadata"]),
                                    "state": {kk: _copy.deepcopy(vv) for kk, vv in self.saved_state["state"].items()}}
            elif k == "rollback":
                # an earlier state is restored into the SAME sampler object after the chain has moved on
                if getattr(self, "saved_state", None) is not None:
                    s.set_state(self.saved_state)
                    o.history = "after_rollback"
                    ctx.fault("state_rollback")
            elif k == "set_scale":
                # hand-tuning: the public scale attribute is re-assigned between runs
                new = float(op["factor"]) * np.asarray(s.scale, float)
                s.scale = new if np.ndim(new) else float(new)
                o.history = "after_scale_assignment"
                ctx.fault("scale_reassigned")
            elif k == "retarget_other":
                # the sampler is pointed at ANOTHER target of the same kind and re-initialised
                if FAMILY[self.kind] in ("rw", "cwmh", "mala", "ula"):
                    sc2 = dict(cur_sc, target=dict(cur_sc["target"], zseed=cur_sc["target"]["zseed"] + 101,
                                                    kind=cur_sc["target"]["kind"] if not cur_sc["target"]["kind"].startswith("post") else "quartic"))
                    k2 = dict(sc2["knobs"])
                    if sc2["target"]["kind"] == "boxed":
                        k2.pop("initial_point", None)
                    sc2["knobs"] = k2
                    cur_sc = sc2
                    t2, info2 = zoo.build_exp_target(ctx, sc2)
                    with core.setup_stream(self.setup_seed):
                        s.target = t2
                        s.reinitialize()
                    refs2 = self._refs(info2)
                    o.refs.update(ref_logd=refs2["ref_logd"], ref_grad=refs2["ref_grad"], p_logd=refs2["p_logd"],
                                  p_grad=refs2.get("p_grad"))
                    self._arm_faults(refs2["p_logd"], o)
                    o.history = "after_retarget_other"
                    ctx.fault("retarget_to_another_target")
            elif k == "retarget":
                s.target = s.target          # public target setter on an initialised sampler
                o.history = "after_retarget"
                ctx.fault("retarget")
            o.check_cache(s.current_point, self._cached(s), "after_" + k)

    # ------------------------------------------------------------------ legacy
    def _run_legacy(self):
        ctx, sc = self.ctx, self.sc
        box = {}

        def cb(sample, index):
            if box.get("in_step"):
                return                        # (transitions of step() calls are delimited by the caller below)
            o = box["o"]
            o.end(np.array(sample, float), None, None)
            o.begin(np.array(sample, float))

        with core.setup_stream(self.setup_seed):
            s, info = zoo.build_legacy_sampler(ctx, sc, callback=cb)
        refs = self._refs(info)
        extra = {}
        if FAMILY[self.kind] == "pcn":
            extra["prior_mean_nonzero"] = bool(np.any(refs["prior_mean"] != 0))
            if extra["prior_mean_nonzero"]:
                ctx.hit("pcn_prior_mean_nonzero")
        o = KernelOracle(ctx, self.sim, FAMILY[self.kind], "legacy", self.kind, refs,
                         get_scale=lambda: np.ravel(s.scale)[0], extra_sig=extra)
        box["o"] = o
        self.sim.policy = o.policy
        self._arm_faults(refs["p_logd"] if FAMILY[self.kind] != "pcn" else refs["p_forward"], o)
        for op in self.case["ops"]:
            if op["op"] == "set_scale":
                ctx.log("op", "set_scale", op["factor"])
                if s.scale is not None:
                    new = float(op["factor"]) * np.asarray(s.scale, float)
                    s.scale = new if np.ndim(new) else float(new)
                    o.history = "after_scale_assignment"
                    ctx.fault("scale_reassigned")
                continue
            if op["op"] == "step":
                # the single-transition interface an orchestrator (legacy Gibbs) drives: x_new = sampler.step(x)
                ctx.log("op", "step", op["n"])
                o.history = "step_calls"
                ctx.fault("driven_through_step")
                x = np.array(s.x0, float)
                box["in_step"] = True
                try:
                    for _ in range(int(op["n"])):
                        o.begin(x)
                        x = np.array(s.step(x), float).reshape(-1)
                        o.end(x, None, None)
                finally:
                    box["in_step"] = False
                    o.active = False
                continue
            ctx.log("op", op["op"], op["N"], op["Nb"])
            if op["op"] == "sample_adapt":
                o.history = "during_adaptation"
            o.begin(s.x0)
            try:
                getattr(s, op["op"])(int(op["N"]), int(op["Nb"]))
            finally:
                o.active = False


class MHKernelEngine(EngineBase):
    name = "mhkernel"
    real = ["cuqi.experimental.mcmc.{MH,CWMH,PCN,MALA,ULA}: step/tune/warmup/sample/get_state/set_state/"
            "save_checkpoint/load_checkpoint/reinitialize (unmodified)",
            "cuqi.sampler.{MH,CWMH,pCN,MALA}: sample/sample_adapt/single_update (unmodified)",
            "cuqi.distribution.{Gaussian,Normal,Uniform,Posterior,UserDefinedDistribution}, cuqi.model.Model"]
    stub = ["global numpy.random tape with an adversarial policy at scalar-uniform accept sites",
            "target log-density / gradient / forward model (probes returning the reference value, or NaN/-inf on schedule)",
            "callback (delimits transitions)", "in-memory file system for the checkpoint reload history"]
    assumptions = ["the proposal noise drawn by the sampler has the law its distribution object claims (C05's business); "
                   "the mechanism is inferred from the recorded draw and the evaluated proposal",
                   "decisions are asserted only when |log u - log alpha| exceeds 1e-6 plus a magnitude-scaled guard",
                   "reversibility/invariance follows from (exact acceptance probability for the inferred proposal) + "
                   "(state untouched on reject); it is an argument, not a measured law"]
    rule = ("mhkernel: scenario (interface, sampler kind, target recipe, scale scalar/per-component, NaN/-inf fault rate) and "
            "an op list over sample/warmup(tune)/state round trip/checkpoint reload/reinitialize; every accept-site uniform is "
            "placed by the adversarial policy next to the reference MH probability")

    def gen(self, r, tier):
        return gen_case(r, tier)

    def run(self, case, ctx):
        sim = core.SimRandom(ctx)
        sim.recording = []
        sim.install()
        try:
            MHRun(ctx, case, sim).run()
        finally:
            sim.policy = None
            sim.uninstall()

    def shrink(self, case):
        import json
        for i, op in enumerate(case["ops"]):
            for key in ("n", "N"):
                if key in op and isinstance(op[key], int) and op[key] > 2:
                    lo = 10 if op["op"] == "sample_adapt" else 1
                    for v in sorted({max(lo, op[key] // 2), max(lo, op[key] - 1)}):
                        if v < op[key]:
                            c = json.loads(json.dumps(case)); c["ops"][i][key] = v; yield c
        if case["scenario"].get("fault_rate"):
            c = json.loads(json.dumps(case)); c["scenario"]["fault_rate"] = 0.0; yield c
