"""Engine `gibbs` (C09): Gibbs sweeps draw each block from its conditional given the current
other blocks.

A small multi-party system: an orchestrator (HybridGibbs.step / legacy Gibbs.step), k block
samplers (real ones, or scripted fakes), one joint target re-conditioned k times per sweep.
The reference model is trivial - `cur: name -> value`, updated when a block update ends - and all
oracles are local (re-synchronised to the implementation after every block update).
"""
import numpy as np

from sim import core, zoo
from sim.core import as_vec, bit_equal, close
from .chain import EngineBase

PROP = "C09"
CACHE_KEYS = ("current_target_logd", "current_target_grad", "current_likelihood_logd")


def _probe_points(v):
    v = as_vec(v)
    return v * 1.1 + 0.05, v * 0.9 + 0.37


def _lg(t, v):
    return float(np.ravel(np.asarray(t.logd(v), float))[0])


# --------------------------------------------------------------------------- fake block sampler

class _StopRun(Exception):
    """The run ends here (a violation has been recorded and the object is in no defined state)."""


def make_fake_class():
    import cuqi.experimental.mcmc as M

    class FakeBlock(M.Sampler):
        """Scripted peer: deterministic transition current_point -> current_point*0.5 + 0.75
        (positive fixed point 1.5, so it is a legal value for Gamma blocks too)."""
        def _initialize(self):
            pass

        def validate_target(self):
            pass

        def step(self):
            self.current_point = as_vec(self.current_point) * 0.5 + 0.75
            return 1

        def tune(self, skip_len, update_count):
            pass
    return FakeBlock


class HybridRun:
    def __init__(self, ctx, case):
        self.ctx, self.case, self.sc = ctx, case, case["scenario"]
        self.setup_seed = core.derive_seed("setup", case["seed"], 0)

    def sig(self, **k):
        d = {"engine": "gibbs", "iface": "hybrid"}
        d.update(k)
        return d

    def build(self):
        import cuqi.experimental.mcmc as M
        sc = self.sc
        J, data = zoo.gibbs_joint(sc["joint"], self.ctx)
        self.probes = data["probes"]
        Fake = make_fake_class()
        strat = {}
        for b, st in sc["strategy"].items():
            kn = dict(st["knobs"])
            if "initial_point" in kn:
                kn["initial_point"] = np.array(kn["initial_point"], float)
                if False and sc.get("scalar_ip") and kn["initial_point"].size == 1 and st["kind"] in ("MH", "PCN"):
                    kn["initial_point"] = float(kn["initial_point"][0])      # a plain number, as in the library's own tests
            if st["kind"] == "Fake":
                strat[b] = Fake(initial_point=kn.get("initial_point"))
            else:
                strat[b] = getattr(M, st["kind"])(**kn)
        with core.setup_stream(self.setup_seed):
            g = M.HybridGibbs(J, strat, dict(sc["steps"]))
        return g

    def run(self):
        ctx, sc = self.ctx, self.sc
        try:
            g = self.build()
        except ValueError:
            if not sc["joint"].get("lmrf_loc"):
                raise
            ctx.count("configuration_refused_by_the_sampler")      # (a refusal is a correct answer for this configuration)
            ctx.nontrivial = True
            return
        twin, tdata = zoo.gibbs_joint(sc["joint"])        # pristine, never touched by the sampler
        self.twin_probes = tdata["probes"]
        self.tdata = tdata
        names = list(g.par_names)
        # fault injection: the forward model returns NaN at proposals of an MH/CWMH block on x
        pf = self.probes.get("forward")
        self.in_step = {"name": None}
        rate = sc.get("fault_rate", 0.0)
        if pf is not None:
            pf.trace = []
            if rate and sc["strategy"].get("x", {}).get("kind") in ("MH", "CWMH"):
                pf.fault_pred = lambda n, args: ("nan" if (self.in_step["name"] == "x" and
                                                           ctx.sched.random() < rate) else None)
        cur = {k: as_vec(v) for k, v in g.current_samples.items()}
        steps = dict(g.num_sampling_steps)
        for n_ in names:
            if n_ not in sc["steps"]:
                ctx.hit("step_count_omitted_for_a_block")
                if steps.get(n_) != 1:
                    ctx.violate(PROP, "step_count", self.sig(block_kind=sc["strategy"][n_]["kind"]), block=n_, default=steps.get(n_))
        visits = []
        hist = []                                       # cur after each sweep
        st = {"pre": {}}

        def wrap(name, smp):
            orig = smp.step
            cnt = [0]
            kind = sc["strategy"][name]["kind"]

            def step():
                if cnt[0] == 0:
                    # ---- a block update begins
                    visits.append(name)
                    ctx.log("block_begin", name, cur[name])
                    others = {k: v for k, v in cur.items() if k != name}
                    T = twin(**others)
                    v1, v2 = _probe_points(cur[name])
                    try:
                        a = _lg(smp.target, v1) - _lg(smp.target, v2)
                        b = _lg(T, v1) - _lg(T, v2)
                        ctx.count("decisions")
                        if np.isfinite(a) and np.isfinite(b):
                            if not close(a, b, 1e-8):
                                ctx.violate(PROP, "freshness", self.sig(block_kind=kind),
                                            block=name, got=a, expected=b, sweep=len(hist))
                        elif sc["joint"]["shape"] == "x_d_reg":
                            ctx.count("freshness_not_judged_implicit_prior_has_no_logd")   # judged by the stand-alone replay
                        else:
                            ctx.undecided("freshness probe non-finite")
                    except Exception as e:                  # a conditional that cannot be evaluated is not judged
                        ctx.undecided("freshness probe raised " + type(e).__name__)
                    if not bit_equal(smp.current_point, cur[name]):
                        ctx.violate(PROP, "start_from_current", self.sig(block_kind=kind), block=name,
                                    got=as_vec(smp.current_point), expected=cur[name], sweep=len(hist))
                    st["pre"][name] = {"rng": np.random.get_state(), "T": T, "others": {k_: v_.copy() for k_, v_ in others.items()},
                                       "trace_mark": len(pf.trace) if pf is not None else 0,
                                       "state": dict(smp.get_state()["state"]) if kind != "Fake" else None,
                                       "start": as_vec(smp.current_point)}
                    if len(visits) >= 2 and visits[-2] != name:
                        ctx.hit("block_update_after_another_block_changed")
                if self.raise_at is not None and self.raise_at[0] == name:
                    self.raise_at[1] -= 1
                    if self.raise_at[1] < 0:
                        self.raise_at = None
                        ctx.fault("block_update_interrupted")
                        raise core.SimCrash("interrupt in block " + name)
                cnt[0] += 1
                self.in_step["name"] = name
                try:
                    r = orig()
                except core.SimCrash:
                    raise
                except Exception as e:
                    if rate or (pf is not None and any(k_ is not None for (a_, v_, k_) in pf.trace)):
                        raise
                    # the block update itself fails on a valid configuration, with no fault injected anywhere
                    ctx.violate(PROP, "block_update_raised", self.sig(block_kind=kind, exc=type(e).__name__), block=name,
                                err=str(e)[:200])
                    raise _StopRun()
                finally:
                    self.in_step["name"] = None
                ctx.count("transitions")
                if cnt[0] == steps[name]:
                    cnt[0] = 0
                    result = as_vec(smp.current_point)
                    if kind != "Fake":
                        pre = st["pre"][name]
                        pre["faulted"] = [i + 1 for i, (a_, v_, k_) in enumerate(pf.trace[pre["trace_mark"]:])
                                          if k_ is not None] if pf is not None else []
                        self.standalone_replay(name, kind, smp, pre, result)
                        self.reference_kernel(name, kind, pre, result)
                    else:
                        exp = st["pre"][name]["start"]
                        for _ in range(steps[name]):
                            exp = exp * 0.5 + 0.75
                        if not bit_equal(exp, result):
                            ctx.violate(PROP, "step_count", self.sig(block_kind=kind), block=name)
                    cur[name] = result
                    ctx.log("block_end", name, result)
                elif cnt[0] > steps[name]:
                    ctx.violate(PROP, "step_count", self.sig(block_kind=kind), block=name, steps=cnt[0])
                return r
            smp.step = step
            smp._verif_cnt = cnt

        for n, sm in g.samplers.items():
            wrap(n, sm)

        orig_store = g._store_samples

        def store():
            orig_store()
            k = len(hist)
            hist.append({n: v.copy() for n, v in cur.items()})
            # ---- visit oracle for the sweep that just ended
            sweep = visits[:]
            del visits[:]
            if sorted(sweep) != sorted(names):
                ctx.violate(PROP, "visit", self.sig(), sweep=sweep, sweep_index=k)
            for n in names:
                c = g.samplers[n]._verif_cnt[0]
                if c != 0:
                    ctx.violate(PROP, "step_count", self.sig(block_kind=sc["strategy"][n]["kind"]), block=n,
                                executed=c, configured=steps[n])
                    g.samplers[n]._verif_cnt[0] = 0
                    cur[n] = as_vec(g.samplers[n].current_point)
            for n in names:
                if not bit_equal(g.samples[n][-1], cur[n]):
                    ctx.violate(PROP, "store", self.sig(), var=n, sweep_index=k)
        g._store_samples = store

        total = 0
        self.raise_at = None
        for op in self.case["ops"]:
            ctx.log("op", op["op"], op.get("n"))
            if op["op"] == "interrupt":
                # a block sampler raises in the middle of a sweep; the same Gibbs object is used again afterwards
                blk = names[op["block"] % len(names)]
                self.raise_at = [blk, int(op["after"])]
                continue
            before = len(hist)
            try:
                if op["op"] == "warmup":
                    g.warmup(int(op["n"]))
                elif op["op"] == "sample":
                    g.sample(int(op["n"]))
            except _StopRun:
                return
            except core.SimCrash:
                # the aborted sweep was not stored; blocks updated before the abort keep their new values
                del visits[:]
                for n_ in names:
                    g.samplers[n_]._verif_cnt[0] = 0
                ctx.hit("sweep_aborted_then_continued")
            total += len(hist) - before
            self.raise_at = None
        ctx.nontrivial = total > 0
        # ---- final record = history of the reference model
        if total:
            S = g.get_samples()
            for n in names:
                a = np.array(S[n].samples, float)
                a = a.reshape(1, -1) if a.ndim == 1 else a
                if a.shape[1] != total:
                    ctx.violate(PROP, "store", self.sig(), var=n, got=int(a.shape[1]), sweeps=total)
                    continue
                for k in range(total):
                    if not bit_equal(a[:, k], hist[k][n]):
                        ctx.violate(PROP, "store", self.sig(), var=n, sweep_index=k, final=True)
                        break

    # ---------------------------------------------------------------------------------------
    def reference_kernel(self, name, kind, pre, result):
        """'drawing from the joint target conditioned on the current values of the other blocks': for the closed-form
        kernels (conjugate pairs, randomise-then-optimise) the update is recomputed from the recipe of the joint by
        sim/refkernels.py on the same entropy tape."""
        from sim import refkernels
        ctx = self.ctx
        if pre.get("faulted"):
            return
        post_rng = np.random.get_state()
        try:
            ref = refkernels.reference_draw(self.sc["joint"], self.tdata, name, kind, self.sc["strategy"][name]["knobs"],
                                            pre["others"], pre["start"], pre["rng"], self.sc["steps"].get(name, 1))
        except refkernels.Undecided as e:
            ctx.undecided(str(e))
            return
        finally:
            np.random.set_state(post_rng)
        if ref is None:
            return
        ctx.count("decisions")
        ctx.count("reference_kernel_compared")
        if ref.shape != result.shape or not np.allclose(ref, result, rtol=1e-7, atol=1e-9):
            ctx.violate(PROP, "reference_kernel", self.sig(block_kind=kind, shape=self.sc["joint"]["shape"]), block=name,
                        got=result, expected=ref)

    def standalone_replay(self, name, kind, smp, pre, result):
        """'drawn by its assigned sampler from the conditional': a freshly built sampler of the same class
        and tuning state on the pristine conditional target, started from cur[b] on the same tape, must
        reproduce the in-Gibbs result bitwise."""
        import cuqi.experimental.mcmc as M
        ctx = self.ctx
        post_rng = np.random.get_state()
        n_steps = self.sc["steps"].get(name, 1)

        def replay(stale):
            kn = dict(self.sc["strategy"][name]["knobs"])
            kn.pop("initial_point", None)
            np.random.set_state(pre["rng"])
            with core.setup_stream(self.setup_seed + 17):
                f = getattr(M, kind)(pre["T"], initial_point=pre["start"].copy(), **kn)
                f.initialize()
                if hasattr(f, "_pre_warmup"):
                    f._pre_warmup()
                if hasattr(f, "_pre_sample"):
                    f._pre_sample()
            for k, v in pre["state"].items():
                if k == "current_point":
                    continue
                if k in CACHE_KEYS and not stale:
                    continue                              # evaluated on *this* target by initialize()
                setattr(f, k, v)
            tp = self.twin_probes.get("forward")
            if tp is not None and pre.get("faulted"):
                # the replay meets the same faults at the same evaluations of the block update
                tp.fault_plan = {tp.calls + i: "nan" for i in pre["faulted"]}
            for _ in range(n_steps):
                f.step()
            if tp is not None:
                tp.fault_plan = {}
            return as_vec(f.current_point)

        try:
            ok = bit_equal(replay(False), result)
            if ok:
                ctx.count("standalone_replay_equal")
            else:
                explained = bit_equal(replay(True), result)
                ctx.violate(PROP, "standalone_replay",
                            self.sig(block_kind=kind,
                                     cls="stale-cache-after-retarget" if explained else "unexplained"),
                            block=name)
                if explained:
                    ctx.hit("stale_cache_window")
                    # the block's kernel ran on cached evaluations that do not belong to (current point, current conditional):
                    # that is also what C02 (accept/reject kernels) and C08 (NUTS) state about the cache, inside an orchestrator
                    if kind in ("MH", "CWMH", "MALA", "PCN"):
                        ctx.violate("C02", "stale_cache_inside_gibbs", {"engine": "gibbs", "iface": "hybrid", "kind": kind},
                                    block=name)
                    elif kind == "NUTS":
                        ctx.violate("C08", "cache_coherence", {"engine": "gibbs", "iface": "hybrid",
                                                               "history": "inside_hybrid_gibbs"}, block=name)
        finally:
            np.random.set_state(post_rng)


# =========================================================================== legacy Gibbs

class LegacyRun:
    def __init__(self, ctx, case):
        self.ctx, self.case, self.sc = ctx, case, case["scenario"]

    def sig(self, **k):
        d = {"engine": "gibbs", "iface": "legacy"}
        d.update(k)
        return d

    def reference_kernel(self, name, kind, knobs, others, start, tape, result):
        from sim import refkernels
        ctx = self.ctx
        post_rng = np.random.get_state()
        try:
            ref = refkernels.reference_draw(self.sc["joint"], self.tdata, name, kind, knobs, others, start, tape, 1)
        except refkernels.Undecided as e:
            ctx.undecided(str(e))
            return
        finally:
            np.random.set_state(post_rng)
        if ref is None:
            return
        ctx.count("decisions")
        ctx.count("reference_kernel_compared")
        if ref.shape != result.shape or not np.allclose(ref, result, rtol=1e-7, atol=1e-9):
            ctx.violate(PROP, "reference_kernel", self.sig(block_kind=kind, shape=self.sc["joint"]["shape"]), block=name,
                        got=result, expected=ref)

    def run(self):
        import cuqi.sampler as LS
        ctx, sc = self.ctx, self.sc
        J, _ = zoo.gibbs_joint(sc["joint"])
        twin, self.tdata = zoo.gibbs_joint(sc["joint"])
        cur = {}
        visits = []
        names_box = []

        def factory(name, st):
            cls = getattr(LS, st["kind"])
            kn = dict(st["knobs"])
            kn.pop("initial_point", None)

            class Wrapped:
                def __init__(w, target):
                    w.t = target
                    w.real = cls(target, **kn)

                def step(w, x):
                    visits.append(name)
                    xv = as_vec(x)
                    ctx.log("block_begin", name, xv)
                    if name in cur and not bit_equal(xv, cur[name]):
                        ctx.violate(PROP, "start_from_current", self.sig(block_kind=st["kind"]), block=name)
                    if len(cur) == len(names_box[0]):
                        others = {k: v for k, v in cur.items() if k != name}
                        T = twin(**others)
                        v1, v2 = _probe_points(xv)
                        try:
                            a = _lg(w.t, v1) - _lg(w.t, v2)
                            b = _lg(T, v1) - _lg(T, v2)
                            ctx.count("decisions")
                            if np.isfinite(a) and np.isfinite(b):
                                if not close(a, b, 1e-8):
                                    ctx.violate(PROP, "freshness", self.sig(block_kind=st["kind"]), block=name,
                                                got=a, expected=b)
                            else:
                                ctx.undecided("freshness probe non-finite")
                        except Exception as e:
                            ctx.undecided("freshness probe raised " + type(e).__name__)
                    tape = np.random.get_state()
                    out = w.real.step(x)
                    ctx.count("transitions")
                    if len(cur) == len(names_box[0]):
                        self.reference_kernel(name, st["kind"], kn, {k: v for k, v in cur.items() if k != name}, xv, tape,
                                              as_vec(out))
                    cur[name] = as_vec(out)
                    ctx.log("block_end", name, cur[name])
                    return out
            return Wrapped

        def multi_factory(bs, st, factory):
            made = {b: factory(b, st) for b in bs}

            def make(target):
                name = target.get_parameter_names()[0]
                return made[name](target)
            return make

        if sc.get("init_point_attr"):
            # the legacy sampler honours an `init_point` attribute on a block's distribution for the very first sweep
            b0 = sorted(sc["strategy"])[sc["init_point_attr"] % len(sc["strategy"])]
            d0 = J.get_density(b0)
            d0.init_point = np.full(d0.dim, 1.5)
            twin.get_density(b0).init_point = np.full(d0.dim, 1.5)
            ctx.hit("init_point_attribute")
        strat = {b: factory(b, st) for b, st in sc["strategy"].items()}
        if sc.get("tuple_keys"):
            # legacy strategy with a tuple key: one sampler class shared by several blocks.  The factory of the first
            # block of the tuple is used for all of them (name is resolved at call time from the target's parameter).
            blocks = sorted(strat)
            kinds = {b: sc["strategy"][b]["kind"] for b in blocks}
            groups = {}
            for b in blocks:
                groups.setdefault((kinds[b], str(sorted(sc["strategy"][b]["knobs"].items()))), []).append(b)
            merged = {}
            for (kind, _), bs in groups.items():
                if len(bs) > 1:
                    merged[tuple(bs)] = multi_factory(bs, sc["strategy"][bs[0]], factory)
                    ctx.hit("tuple_keys_in_legacy_strategy")
                else:
                    merged[bs[0]] = strat[bs[0]]
            strat = merged
        g = LS.Gibbs(J, strat)
        names = list(g.par_names)
        names_box.append(names)
        # initial values as the orchestrator defines them
        for n, v in g._get_initial_points().items():
            cur[n] = as_vec(v)
        hist = []
        orig_store = g._store_samples

        def store(samples, current_samples, i):
            orig_store(samples, current_samples, i)
            sweep = visits[:]
            del visits[:]
            if sorted(sweep) != sorted(names):
                ctx.violate(PROP, "visit", self.sig(), sweep=sweep)
            hist.append({n: v.copy() for n, v in cur.items()})
            for n in names:
                if not bit_equal(samples[n][:, i], cur[n]):
                    ctx.violate(PROP, "store", self.sig(), var=n, index=i)
        g._store_samples = store
        Nb = sc["Nb"]
        total = 0
        first = True
        res = None
        handed_out = []                     # every result object returned so far, with the number of sweeps it covers
        for op in self.case["ops"]:
            if op["op"] == "refused_warmup" and not first and Nb:
                # a second request for a warm-up phase is refused; the caller catches the error and goes on sampling
                ctx.fault("refused_call_then_continue")
                try:
                    g.sample(int(op["n"]), Nb)
                    ctx.undecided("second warm-up request was not refused")
                    return
                except ValueError:
                    del visits[:]
                continue
            if op["op"] != "sample":
                continue
            ctx.log("op", "sample", op["n"])
            last_before = {n: v.copy() for n, v in cur.items()}
            res = g.sample(int(op["n"]), Nb) if first else g.sample(int(op["n"]))
            if not first:
                ctx.hit("continued_run")
            first = False
            total += int(op["n"])
            handed_out.append((res, total))
        ctx.nontrivial = total > 0
        # the stored sample of a sweep is the tuple of values after THAT sweep - also in results handed out by earlier calls
        for (old, tot) in handed_out[:-1]:
            for n in names:
                a = np.array(old[n].samples, float)
                a = a.reshape(1, -1) if a.ndim == 1 else a
                bad = [k for k in range(min(tot, a.shape[1])) if not bit_equal(a[:, k], hist[Nb + k][n])]
                if a.shape[1] != tot or bad:
                    ctx.violate(PROP, "store", self.sig(what="result_of_earlier_call"), var=n, first_bad=bad[:1], covers=tot)
                    break
        if res is not None:
            for n in names:
                a = np.array(res[n].samples, float)
                a = a.reshape(1, -1) if a.ndim == 1 else a
                if a.shape[1] != total:
                    ctx.violate(PROP, "store", self.sig(), var=n, got=int(a.shape[1]), sweeps=total)
                    continue
                for k in range(total):
                    if not bit_equal(a[:, k], hist[Nb + k][n]):
                        ctx.violate(PROP, "store", self.sig(), var=n, sweep_index=k, final=True)
                        break


# =========================================================================== engine

def gen_case(r, tier):
    legacy = r.random() < 0.3
    sc = zoo.gen_gibbs_scenario(r, legacy=legacy)
    sc["iface"] = "legacy" if legacy else "hybrid"
    ops = []
    if legacy:
        sc["Nb"] = r.choice([0, 0, 2, 5])
        sc["tuple_keys"] = r.random() < 0.4
        sc["init_point_attr"] = r.randint(1, 5) if r.random() < 0.3 else 0
        for _ in range(r.randint(1, 3)):
            ops.append({"op": "sample", "n": r.randint(1, 8)})
        if sc["Nb"] and r.random() < 0.5:
            ops.insert(1, {"op": "refused_warmup", "n": r.randint(1, 5)})
            if len(ops) == 2:
                ops.append({"op": "sample", "n": r.randint(1, 6)})
    else:
        # scripted fakes for some blocks (exact control, no randomness)
        for b in sorted(sc["strategy"]):
            if r.random() < 0.2:
                ip = sc["strategy"][b]["knobs"].get("initial_point")
                sc["strategy"][b] = {"kind": "Fake", "knobs": ({"initial_point": ip} if ip else {})}
        if sc["joint"]["shape"] in ("x_s", "x_d_s", "x_d_lmrf") and sc["joint"].get("model") != "deconv" and r.random() < 0.4:
            sc["joint"]["model"] = "func"
            sc["fault_rate"] = r.choice([0.0, 0.1, 0.3])
        if sc["joint"]["shape"] == "x_d_lmrf" and sc["joint"]["n"] >= 3 and sc["strategy"]["d"]["kind"] == "ConjugateApprox" \
                and sc["joint"].get("model") != "func" and r.random() < 0.4:
            # a non-zero prior location whose entries sum to zero: either the approximate conjugate sampler refuses the
            # configuration or it draws from the conditional that contains the location
            sc["joint"]["lmrf_loc"] = True
            sc["strategy"]["x"] = {"kind": r.choice(["MH", "CWMH"]), "knobs": {"scale": r.choice([0.1, 0.4])}}
        if r.random() < 0.5:
            ops.append({"op": "warmup", "n": r.randint(1, 12)})
        for _ in range(r.randint(1, 3)):
            # NOTE: no "interrupt" op is generated.  A first version raised inside a block update and continued the run; it
            # reported on the UNCHANGED tree that after an abort inside a multi-step block update the block's sampler is
            # ahead of the orchestrator's current value.  C09 speaks about sweeps; what a half-executed sweep leaves behind
            # is not specified by it, so the check demanded more than the property states (the interpreter support stays).
            ops.append({"op": "sample", "n": r.randint(1, 10)})
        if ops and ops[-1]["op"] != "sample":
            ops.append({"op": "sample", "n": r.randint(1, 6)})
    return {"scenario": sc, "ops": ops}


class GibbsEngine(EngineBase):
    name = "gibbs"
    real = ["cuqi.experimental.mcmc.HybridGibbs (step, _set_target, reinitialise/state carry-over, num_sampling_steps, "
            "_store_samples, warmup/sample/tune), cuqi.sampler.Gibbs (sample, step, _get_initial_points, allocation), "
            "JointDistribution conditioning, real block samplers MH/CWMH/MALA/ULA/PCN/NUTS/LinearRTO/UGLA/Conjugate/"
            "ConjugateApprox (experimental) and LinearRTO/CWMH/MH/UGLA/Conjugate/ConjugateApprox (legacy)"]
    stub = ["scripted fake block sampler (subclass of experimental Sampler)", "global numpy.random tape",
            "wrappers around sampler.step / _store_samples that feed the reference model"]
    assumptions = ["block kernels' own correctness is C02/C06/C10's business; this check decides what the orchestrator "
                   "hands to them and what it records",
                   "invariance of the joint is the composition of visit+freshness+start with the block kernels' invariance "
                   "(an argument, not a measured law)"]
    rule = ("gibbs: hierarchical joint (2-4 blocks, hyper-parameters through lambdas), sampler per block (real or fake), "
            "per-block step counts, warm-up then sample splits; oracles per block update: visit, freshness, start, step count, "
            "store, stand-alone replay")

    def gen(self, r, tier):
        return gen_case(r, tier)

    def run(self, case, ctx):
        sim = core.SimRandom(ctx)
        sim.install()
        # seam for SciPy's hidden Fortran generator (randomised spectral-norm estimate behind the automatic FISTA step
        # size): every estimate starts from the generator's default state, so it is a function of its operator alone
        import scipy.linalg.interpolative as sli
        import cuqi.experimental.mcmc._rto as rto_mod
        real_est = rto_mod.estimate_spectral_norm

        def est(*a, **k):
            sli.seed("default")
            return real_est(*a, **k)
        rto_mod.estimate_spectral_norm = est
        try:
            if case["scenario"]["iface"] == "hybrid":
                HybridRun(ctx, case).run()
            else:
                LegacyRun(ctx, case).run()
        finally:
            rto_mod.estimate_spectral_norm = real_est
            sim.uninstall()

    def shrink(self, case):
        import json
        for i, op in enumerate(case["ops"]):
            if op.get("n", 0) > 1:
                for v in sorted({op["n"] // 2, op["n"] - 1}):
                    if 1 <= v < op["n"]:
                        c = json.loads(json.dumps(case)); c["ops"][i]["n"] = v; yield c
        st = case["scenario"].get("steps") or {}
        for b, v in st.items():
            if v > 1:
                c = json.loads(json.dumps(case)); c["scenario"]["steps"][b] = 1; yield c
