"""Engine registry and per-property run plans."""
from .chain import ChainEngine
from .mhkernel import MHKernelEngine
from .gibbs import GibbsEngine
from .streams import StreamsEngine
from .objhist import ObjHistEngine
from .nuts import NutsEngine

REGISTRY = {
    "chain": ChainEngine,
    "mhkernel": MHKernelEngine,
    "gibbs": GibbsEngine,
    "streams": StreamsEngine,
    "objhist": ObjHistEngine,
    "nuts": NutsEngine,
}

PLAN = {
    "C08": [{"engine": "nuts", "level": "exploration",
             "quick": {"runs": 1500, "budget_s": 240}, "thorough": {"runs": 20000, "budget_s": 3000}},
            {"engine": "gibbs", "level": "exploration",        # NUTS as a block of HybridGibbs: cache coherence at every block update
             "quick": {"runs": 600, "budget_s": 120}, "thorough": {"runs": 10000, "budget_s": 1200}}],
    "C11": [{"engine": "objhist", "level": "exploration",
             "quick": {"runs": 900, "budget_s": 300}, "thorough": {"runs": 20000, "budget_s": 3000}}],
    "C01": [{"engine": "objhist", "level": "exploration",
             "quick": {"runs": 900, "budget_s": 300}, "thorough": {"runs": 20000, "budget_s": 3000}}],
    "C05": [{"engine": "streams", "level": "exploration",
             "quick": {"runs": 3000, "budget_s": 240}, "thorough": {"runs": 100000, "budget_s": 3000}}],
    "C09": [{"engine": "gibbs", "level": "exploration",
             "quick": {"runs": 1000, "budget_s": 240}, "thorough": {"runs": 30000, "budget_s": 3000}}],
    "C14": [{"engine": "chain", "level": "fault_enumeration",
             "quick": {"runs": 2500, "budget_s": 300}, "thorough": {"runs": 60000, "budget_s": 3000}}],
    "C02": [{"engine": "mhkernel", "level": "exploration",
             "quick": {"runs": 2500, "budget_s": 240}, "thorough": {"runs": 60000, "budget_s": 3000}},
            {"engine": "gibbs", "level": "exploration",        # MH-type kernels as blocks of HybridGibbs: cached density at every block update
             "quick": {"runs": 600, "budget_s": 120}, "thorough": {"runs": 10000, "budget_s": 1200}}],
}
