"""Engine registry and per-property run plans."""
from .chain import ChainEngine
from .mhkernel import MHKernelEngine

REGISTRY = {
    "chain": ChainEngine,
    "mhkernel": MHKernelEngine,
}

PLAN = {
    "C14": [{"engine": "chain", "level": "fault_enumeration",
             "quick": {"runs": 3000, "budget_s": 240}, "thorough": {"runs": 60000, "budget_s": 3000}}],
    "C02": [{"engine": "mhkernel", "level": "exploration",
             "quick": {"runs": 1500, "budget_s": 240}, "thorough": {"runs": 60000, "budget_s": 3000}}],
}
