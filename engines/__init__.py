"""Engine registry and per-property run plans."""
from .chain import ChainEngine

REGISTRY = {
    "chain": ChainEngine,
}

PLAN = {
    "C14": [{"engine": "chain", "level": "fault_enumeration",
             "quick": {"runs": 3000, "budget_s": 240}, "thorough": {"runs": 60000, "budget_s": 3000}}],
}
