"""Engine registry and per-property run plans."""
from .chain import ChainEngine

REGISTRY = {
    "chain": ChainEngine,
}

PLAN = {
    "C14": [{"engine": "chain", "level": "fault_enumeration",
             "quick": {"runs": 480, "budget_s": 150}, "thorough": {"runs": 20000, "budget_s": 3000}}],
}
