"""Static description of the checks (feeds MANIFEST.json)."""

HOOK_COMMITS = []

def _check(pid, engine, category, text, note, technique, ref):
    return {
        "property_id": pid,
        "quick_cmd": "bin/check %s --tier quick" % pid,
        "thorough_cmd": "bin/check %s --tier thorough" % pid,
        "evidence_file": "evidence/%s.json" % pid,
        "replay_cmd_template": "bin/check %s --replay {path}" % pid,
        "engine": engine,
        "level_claimed": {"category": category, "text": text, "design_ref": ref},
        "level_note": note,
        "technique": technique,
    }

CHECKS = [
    _check("C14", "chain", "fault_enumeration",
           "Seeded search over scenarios (all experimental and legacy samplers, HybridGibbs, legacy Gibbs) and operation/fault "
           "lists: split points, checkpoints through a simulated file system, crash-restart in the same or a new simulated "
           "process (through the checkpoint file or by carrying the state dictionary over), crashes inside a transition, checkpoints "
           "taken from the callback, I/O errors during save, sample batches written to the simulated disk, benign observers "
           "(state/history round trips, repr, get_samples), reinitialise followed by a same-length run, warm-up given as one or "
           "several calls with different tuning frequencies; thorough tier enumerates every checkpoint position of a scenario. "
           "Every sampler object is compared bitwise with an uninterrupted reference run of its own timeline on the same random "
           "tape; callbacks, hand-over immutability, lengths and consecutiveness are judged per object.",
           "Trusted: numpy's RandomState get/set_state, pickle, the harness' own tape persistence. Sampling, not proof: a clean batch is evidence.",
           "deterministic simulation: seeded schedule+fault search, crash/restart with durable-state model, bitwise reference-run oracle, ddmin replay",
           "DESIGN.md 3.1"),
]

CHECKS.append(_check("C02", "mhkernel", "exploration",
           "Adversarially scheduled accept sites: for every transition of experimental MH/CWMH/PCN/MALA(/ULA guard) and legacy "
           "MH/CWMH/pCN/MALA the simulator infers the proposal mechanism from the recorded proposal draw and the evaluated "
           "point, computes the exact MH probability from a pure reference density and serves the accept-site uniform just "
           "below / just above it; verdicts per transition (accept iff u<alpha, state and caches untouched on reject, caches "
           "belong to the new state on accept), re-checked after warm-up/tuning, state round trip, checkpoint reload, rollback to an "
           "earlier state on the same object, re-assignment of the scale, re-setting the target, reinitialise, and after the target "
           "raised in the middle of a transition (interrupt); NaN / -inf (with a NaN gradient) injected at proposals must never be "
           "accepted. Targets: smooth non-Gaussian reference densities, genuine cuqi Posterior objects, nonlinear-model posteriors "
           "and (likelihood, prior) tuples for pCN. A second part runs the gibbs engine: MH/CWMH/MALA/PCN as blocks of HybridGibbs, "
           "where a block update that is reproduced only by a stand-alone kernel carrying the in-Gibbs cached values (and not by one "
           "that evaluated the current conditional) is a stale-cache violation.",
           "Trusted: the law of the proposal noise (C05's business), the reference densities of the zoo. Invariance is inferred "
           "from exact acceptance + untouched state on reject, not measured.",
           "deterministic simulation: adversarial scheduling of the accept-site uniform against a reference MH model, NaN/-inf fault injection, local per-transition oracles",
           "DESIGN.md 3.2"))

CHECKS.append(_check("C09", "gibbs", "exploration",
           "The orchestrator (HybridGibbs / legacy Gibbs) is run with real and scripted block samplers on generated hierarchical "
           "joints; wrappers around each block sampler feed a trivial reference model (name -> current value). Per block update: "
           "every block visited once per sweep, the target handed to the block equals the pristine twin joint conditioned on the "
           "current values of all other blocks (log-density differences at probe points), the sampler starts from the block's "
           "current value, is advanced exactly the configured number of steps, the stored sweep equals the values after the sweep, "
           "a freshly built sampler on the pristine conditional replays the block update bitwise on the same tape, and for every block "
           "with a closed-form kernel (conjugate and approximately conjugate Gamma updates, LinearRTO with one or two likelihoods, "
           "UGLA, Direct) the update is recomputed by a reference kernel written in numpy from the RECIPE of the joint (matrices, "
           "data, hyper-prior constants, current values of the other blocks) on the same entropy tape. Joints include non-zero prior "
           "means, Neumann GMRF priors, expansion geometries, correlated noise, a three-level vector hierarchy and the forward "
           "operator of the shipped deconvolution test problem; histories include refused calls followed by continuation.",
           "Trusted: correctness of the accept/reject block kernels (C02/C08, checked there and, for stale caches inside the "
           "orchestrator, by this engine under those ids), JointDistribution conditioning of the twin (C01). Invariance of the joint "
           "is an argument from these oracles, not a measured law.",
           "deterministic simulation: orchestrator with real/fake peers, reference model of current block values, tape rewind + stand-alone replay oracle",
           "DESIGN.md 3.4"))

CHECKS.append(_check("C05", "streams", "exploration",
           "RANDOM-STREAM, WRAPPING AND REFUSAL CLAUSES, PLUS A PER-DRAW MECHANISM IDENTITY FOR GAUSSIAN-TYPE FAMILIES. Two simulated clients share the process: A draws with its own "
           "generator (Distribution.sample(N, rng=g) over 21 family/parameterisation recipes; legacy ULA/MALA/UGLA(rng=g)), B "
           "consumes the global stream (sampling without rng, experimental MH steps). The scheduler interleaves them; each "
           "client's outputs must equal its solo run from the same initial stream state, an A-op must leave the global state and "
           "a B-op the generator untouched (state digests), repeating an A-op from a restored generator state repeats the output, "
           "N=1 gives a geometry-carrying array and N>1 a one-column-per-draw collection, and conditional distributions refuse to "
           "sample without consuming randomness. Histories that re-assign a parameter (value or callable) must leave the object "
           "indistinguishable from a freshly constructed twin (draws under the same generator state, log-density, refusal). For "
           "Gaussian, zero-boundary GMRF and Lognormal draws the simulator owns the standard-normal block e and checks the identity "
           "2(logd(mean)-logd(draw)) = e'e, i.e. the draw is mean + L e with L a square root of the covariance the object's own "
           "log-density reports (dense/sparse, all four parameterisations, triangular and full roots, both sides of the sparse "
           "switch). For all other families the distributional clause is NOT decided: a law cannot be observed in one replayable run.",
           "Trusted: numpy RandomState state capture. The first sentence of C05 is outside this technique (DESIGN.md 3.6).",
           "deterministic simulation: interleaving of two random-stream clients, solo-run equivalence and stream-state digests",
           "DESIGN.md 3.6"))

CHECKS.append(_check("C11", "objhist", "exploration",
           "Objects that share structure (a joint, its component densities, its forward models and everything derived from them by "
           "the library's shallow copies) are driven through seeded interleavings of condition / evaluate / gradient / sample / "
           "to_likelihood / stacked view / model application / sampler runs on copies / 200-2000 re-conditionings, with hyper-"
           "parameter callables that raise or return NaN at the k-th call. After every operation the behavioural signature of every "
           "live object (names, conditioning variables, dim, logd, gradient, a draw under a private generator, depth-1 conditioning) "
           "must equal that of its twin rebuilt from the recipe and never touched by the history; the twin's probes are evaluated in "
           "reverse order (observers must commute). Also: the BayesianProblem interface (sample_prior / sample_posterior / MAP / ML) on "
           "problems built from a posterior's factors, sampler runs repeated on one object, handed-out samples edited by the caller, a "
           "user prior handed to shipped test problems; graphs with KL/step/mapped/2-D geometries, PDE models and user-defined "
           "densities that hand out persistent arrays.",
           "Trusted: the constructors used to rebuild the twin. A behavioural signature is finite: influence that none of its entries "
           "observes is not seen.",
           "deterministic simulation: seeded operation/fault histories over aliased objects, twin-object behavioural-signature oracle",
           "DESIGN.md 3.5"))
CHECKS.append(_check("C01", "objhist", "exploration",
           "On the same histories: every object reached from a joint by any order / grouping of conditioning calls (keyword or "
           "positional, single or several variables, every reduction branch: joint, Posterior, Distribution, Likelihood, "
           "MultipleLikelihoodPosterior, fully evaluated) must evaluate at the remaining variables to the pristine twin joint's "
           "log-density at the complete assignment; the stacked view must agree; evaluations with missing, unknown or doubly "
           "specified variables must raise (accepted-invalid); conditioning on a valid free variable must yield an object "
           "(refused-valid); every older view is re-evaluated after every later operation, also views fixed at alternative values; for "
           "19 of the 27 model graphs the reference value is additionally written out in closed form in numpy. Weakest fit of the claimed set: its histories carry no clock or randomness of their own - the simulator "
           "contributes seeded sequence generation, the twin and the fault dimension.",
           "Trusted: JointDistribution.logd of the pristine twin as reference value for the graphs without a closed form.",
           "deterministic simulation: seeded conditioning histories with callable faults, twin-joint reference value",
           "DESIGN.md 3.5"))

CHECKS.append(_check("C08", "nuts", "exploration",
           "MECHANISM CLAUSES by lock-step reference; invariance by argument. For every transition of experimental NUTS "
           "(fresh, during and after warm-up, after checkpoint reload) and of legacy NUTS (fixed, searched and adapted step size) an "
           "independent reference (leapfrog + Hoffman-Gelman Algorithm 3/6 with slice variable) is fed the recorded momentum, slice "
           "draw, step size and the uniforms actually served, and must reproduce (A) the exact ordered set of evaluated points - "
           "integrator, doubling, stop at first U-turn / divergence / non-finite leaf / max depth, (B) the selected state, (C) the "
           "cached log-density and gradient, (D) the acceptance statistic and the dual-averaging step size. Merge and top-level "
           "uniforms are placed adversarially next to the reference's thresholds n''/(n'+n'') and min(1,n'/n); NaN/-inf/+inf leaves "
           "are injected and must never be selected; histories include rollback, re-setting the target, interrupts (the target "
           "raises at an arbitrary leaf), one saved state restored twice, and far-tail starts; the slice level must be finite. A second part "
           "runs the gibbs engine (NUTS as a block of HybridGibbs: cache coherence at every block update). The distributional sentence (state after k transitions is again a draw) is not "
           "measured: it is the published theorem about the algorithm the implementation is shown to refine.",
           "Trusted: the reference implementation of the algorithm (90 lines), the zoo's reference densities. Undecided protocol "
           "mismatches are counted, never reported as violations.",
           "deterministic simulation: lock-step refinement against a reference NUTS under adversarially scheduled uniforms, non-finite leaf faults",
           "DESIGN.md 3.3"))

ENGINES = [
    {"name": "chain", "path": "engines/chain.py", "serves_properties": ["C14"],
     "kind_free_text": "seeded simulator of sampler runs: owns the random tape, the file system, the callback and the target callables; injects splits, checkpoints, crashes, restarts, I/O errors"},
    {"name": "gibbs", "path": "engines/gibbs.py", "serves_properties": ["C09", "C02", "C08"],
     "kind_free_text": "Gibbs orchestrators with real and scripted block samplers; reference model of current block values; tape rewind and stand-alone replay; reference kernels (conjugate pairs, randomise-then-optimise) written from the recipe"},
    {"name": "streams", "path": "engines/streams.py", "serves_properties": ["C05"],
     "kind_free_text": "two random-stream clients (own generator vs global stream) interleaved by the scheduler; solo-run equivalence"},
    {"name": "objhist", "path": "engines/objhist.py", "serves_properties": ["C11", "C01"],
     "kind_free_text": "interleaved operations on objects sharing structure; twin rebuilt from recipe; hyper-parameter callable faults"},
    {"name": "nuts", "path": "engines/nuts.py", "serves_properties": ["C08"],
     "kind_free_text": "lock-step reference NUTS (coroutine) with adversarial merge/top-level uniforms and non-finite leaf faults"},
    {"name": "mhkernel", "path": "engines/mhkernel.py", "serves_properties": ["C02"],
     "kind_free_text": "adversarial scheduler of the accept-site uniform with a reference MH model per proposal family; NaN/-inf fault injection at proposals"},
]

NOT_APPLICABLE = [
    {"property_id": "C03", "reason": "gradient = derivative is a pointwise identity of a deterministic function of (parameters, point); no state, stream, schedule or fault enters it"},
    {"property_id": "C04", "reason": "normalisation and equality of Gaussian parameterisations are identities between deterministic functions of (family, parameters, dimension, point)"},
    {"property_id": "C06", "reason": "a linear-RTO/UGLA step is a pure function of (posterior, perturbation, current state); exactness of its affine map is algebra on one call, not a history, schedule or fault"},
    {"property_id": "C07", "reason": "<Ax,y> = <x,A*y> and get_matrix are identities of deterministic linear maps over (model, geometry, x, y)"},
    {"property_id": "C10", "reason": "the Gamma(shape, rate) a conjugate step draws from is a pure function of the target; proportionality and structural rejection are decided on single calls"},
    {"property_id": "C12", "reason": "equality of a model's action on input representations and the chain rule are input-output relations of deterministic maps (its 'changes nothing else' clause is exercised under C11)"},
    {"property_id": "C13", "reason": "par2fun/fun2par round trips and column-wise action are identities over (geometry, vectors); no reachable stale state"},
    {"property_id": "C15", "reason": "MAP/ML optimality and closed-form moments are functions of the problem; no solver seam exists through which a fault could be injected without rewriting SciPy"},
    {"property_id": "C16", "reason": "solver optimality is a fixed-point identity per (problem, start vector); deterministic and stateless"},
    {"property_id": "C17", "reason": "each test problem is a deterministic function of (options, seed); conformance needs an independent operator definition, not a schedule"},
    {"property_id": "C18", "reason": "assemble-solve-observe is deterministic per (form, grids, parameter); PDEModel re-assembles on every call so no history-dependent state is reachable"},
    {"property_id": "C19", "reason": "burn-thin and statistics are index arithmetic and numpy reductions on an array; Samples has no mutating API, so there is no interleaving partner"},
    {"property_id": "C20", "reason": "stencils, Kronecker structure, rank and log-determinant are facts about a finite family of matrices: an enumeration/proof target, not a simulation target"},
]

# properties claimed in DESIGN.md whose engines are not built yet are listed as not applicable *for now*
PENDING = {
    "C01": "engine objhist not built yet (planned, DESIGN.md 3.5)",
    "C02": "engine mhkernel not built yet (planned, DESIGN.md 3.2)",
    "C05": "engine streams not built yet (planned, DESIGN.md 3.6; random-stream clauses only)",
    "C08": "engine nuts not built yet (planned, DESIGN.md 3.3)",
    "C09": "engine gibbs not built yet (planned, DESIGN.md 3.4)",
    "C11": "engine objhist not built yet (planned, DESIGN.md 3.5)",
}
_claimed = {c["property_id"] for c in CHECKS}
for _pid, _why in sorted(PENDING.items()):
    if _pid not in _claimed:
        NOT_APPLICABLE.append({"property_id": _pid, "reason": _why})
NOT_APPLICABLE.sort(key=lambda d: d["property_id"])
