"""Engine `objhist` (C11 and C01).

The parties are *objects that share structure*: an original (a joint distribution and its
component densities, forward models) and everything derived from it by the library's shallow
copies.  The schedule is the interleaving of operations on them; the faults are exceptions and
non-finite values coming out of user callables (hyper-parameter lambdas) in the middle of an
operation.

C11 oracle: behavioural signature sigma(obj); after every operation sigma(o) of every live object
must equal the signature of its *twin*, rebuilt from the recipe alone and never touched by the
history.
C01 oracle: every object reached from a joint J by any sequence / grouping of conditioning calls
evaluates, at the remaining variables, to twin(J).logd(full assignment); invalid evaluations must
raise (accepted-invalid), valid conditioning calls must yield an object (refused-valid).
"""
import os
import numpy as np

from sim import core, graphs
from sim.core import close
from .chain import EngineBase


def _f(v):
    a = np.asarray(v, dtype=float)
    return a.reshape(-1).copy()


def _try(fn):
    try:
        return ("ok", fn())
    except core.SimCrash:
        raise
    except Exception as e:
        return ("exc", type(e).__name__)


def _defer(fn):
    return ("defer", fn)


def _force(s, reverse):
    """Evaluate the deferred probes of a signature in forward or reverse order; the result is in canonical order."""
    idx = [i for i, (k, v) in enumerate(s) if isinstance(v, tuple) and len(v) == 2 and v[0] == "defer"]
    out = list(s)
    for i in (reversed(idx) if reverse else idx):
        out[i] = (s[i][0], _try(s[i][1][1]))
    return out


def sig_equal(a, b):
    """Entry-wise comparison of two signatures; returns the first differing key or None."""
    ka, kb = [k for k, _ in a], [k for k, _ in b]
    if ka != kb:
        return "keys:%s" % (sorted(set(ka) ^ set(kb))[:3],)
    for (k, va), (_, vb) in zip(a, b):
        if va[0] != vb[0]:
            return k
        if va[0] == "exc":
            if va[1] != vb[1]:
                return k
            continue
        x, y = va[1], vb[1]
        if isinstance(x, (str, bool, type(None))) or isinstance(y, (str, bool, type(None))):
            if x != y:
                return k
        elif isinstance(x, (list, tuple)) and x and isinstance(x[0], str) or isinstance(x, (list, tuple)) and not x:
            if list(x) != list(y):
                return k
        else:
            try:
                if not close(_f(x), _f(y), 1e-9):
                    return k
            except Exception:
                if repr(x) != repr(y):
                    return k
    return None


class Obj:
    """A live object with its recipe."""

    def __init__(self, obj, kind, path, fixed, root="J"):
        self.obj, self.kind = obj, kind
        self.path = path          # list of conditioning steps [{"names":[...], "how":"kw"|"pos"}], from the root
        self.fixed = fixed        # set of fixed variable names
        self.root = root          # "J" | "dens:<name>" | "model:<name>"
        self.twin_sig = None


class ObjRun:
    def __init__(self, ctx, case):
        self.ctx, self.case, self.sc = ctx, case, case["scenario"]
        self.calls = {}            # hook call counters per tag
        self.fault_plan = {}       # (tag, call#) -> kind
        self.G = graphs.build(self.sc["graph"], hook=self.hook)
        self.vals = self.G["vals"]
        # a second admissible value per variable: siblings conditioned on DIFFERENT values of the same variable
        self.vals_alt = {n: (np.asarray(v, float) * 1.7 + (0.0 if n in ("s", "d", "b", "t", "prec", "m", "v", "h") or np.all(np.asarray(v) > 0) else 0.3))
                         for n, v in self.vals.items()}
        self.twinG0 = graphs.build(self.sc["graph"])
        self.total = float(np.ravel(self.twinG0["J"].logd(**self.vals))[0])
        # cross-check of the reference value itself: the joint log-density is the sum of its densities' log-densities,
        # each evaluated on its own (pristine) component object
        comp = 0.0
        for n_, d_ in self.twinG0["dens"].items():
            comp += float(np.ravel(d_.logd(**{q: self.vals[q] for q in d_.get_parameter_names()}))[0])
        self.total_components = comp
        self.pool = []

    # ------------------------------------------------------------------ hooks (fault injection)
    def hook(self, tag, f, v):
        if not getattr(self, "in_op", False):
            return f(v)                      # signature evaluation / set-up: never faulted, not counted
        n = self.calls[tag] = self.calls.get(tag, 0) + 1
        kind = self.fault_plan.pop((tag, n), None)
        self.ctx.log("lambda", tag, n, _f(v))
        if kind is not None:
            self.fault_fired = True
        if kind == "raise":
            self.ctx.fault("lambda_raises")
            raise core.SimCrash("lambda %s call %d" % (tag, n))
        if kind == "nan":
            self.ctx.fault("lambda_returns_nan")
            out = f(v)
            return np.nan * np.asarray(out, float) if np.ndim(out) else float("nan")
        return f(v)

    # ------------------------------------------------------------------ twins
    def twin_of(self, o: Obj):
        G = graphs.build(self.sc["graph"])
        return self.replay_path(G, o), G

    def replay_path(self, G, o: Obj):
        if o.root == "J":
            cur = G["J"]
        elif o.root.startswith("dens:"):
            cur = G["dens"][o.root[5:]]
        elif o.root.startswith("model:"):
            return G["models"][o.root[6:]]
        for step in o.path:
            cur = self.apply_cond(cur, step)
        return cur

    def apply_cond(self, obj, step):
        if step.get("special") == "to_likelihood":
            return obj.to_likelihood(self.vals[step["names"][0]])
        if step.get("special") == "stacked":
            return obj._as_stacked()
        if step.get("special") == "problem":
            from cuqi.problem import BayesianProblem
            self._last_bp = BayesianProblem(obj.likelihood, obj.prior)
            return self._last_bp.posterior
        if step.get("special") == "problem_lik":
            from cuqi.problem import BayesianProblem
            return BayesianProblem(obj.likelihood, obj.prior).likelihood
        V = self.vals_alt if step.get("alt") else self.vals
        if step["how"] == "pos":
            return obj(*[V[n] for n in step["names"]])
        return obj(**{n: V[n] for n in step["names"]})

    # ------------------------------------------------------------------ behavioural signature
    def sigma(self, obj, fixed, from_joint=False, reverse=False):
        """Behavioural signature.  The probes are collected first and then evaluated in forward or in REVERSE order: probes
        are observers and must not influence one another, so the twin is signed in the opposite order to the object."""
        from cuqi.distribution import JointDistribution, Distribution, Posterior
        from cuqi.likelihood import Likelihood
        from cuqi.density import EvaluatedDensity
        from cuqi.model import Model
        vals = self.vals
        s = [("class", ("ok", type(obj).__name__))]
        if isinstance(obj, Model):
            s.append(("args", ("ok", list(obj._non_default_args))))
            x = np.linspace(-1, 1, obj.domain_dim)
            s.append(("forward", _defer(lambda: _f(obj.forward(x)))))
            s.append(("range_dim", ("ok", float(obj.range_dim))))
            return _force(s, reverse)
        if isinstance(obj, EvaluatedDensity):
            s.append(("value", _defer(lambda: _f(obj.logd()))))
            s.append(("name", ("ok", obj.name)))
            return _force(s, reverse)
        names = _try(lambda: list(obj.get_parameter_names()))  # (needed for control flow)
        s.append(("parameter_names", names))
        pn = names[1] if names[0] == "ok" else []
        have = all(n in vals for n in pn)
        if isinstance(obj, JointDistribution) and not isinstance(obj, Distribution):
            s.append(("logd", _defer(lambda: _f(obj.logd(**{n: vals[n] for n in pn}))) if have else ("ok", "n/a")))
            for n in pn:
                def c1(n=n):
                    r = obj(**{n: vals[n]})
                    return [type(r).__name__] + list(r.get_parameter_names())
                s.append(("cond:" + n, _defer(c1)))
            return _force(s, reverse)
        s.append(("name", _defer(lambda: obj.name)))
        s.append(("dim", _defer(lambda: float(obj.dim) if np.isscalar(obj.dim) else [float(x) for x in obj.dim])))
        if isinstance(obj, Distribution):
            s.append(("cond_vars", _defer(lambda: list(obj.get_conditioning_variables()))))
            s.append(("is_cond", _defer(lambda: bool(obj.is_cond))))
        if have:
            s.append(("logd", _defer(lambda: _f(obj.logd(**{n: vals[n] for n in pn})))))
            if len(pn) == 1:
                s.append(("logd_pos", _defer(lambda: _f(obj.logd(vals[pn[0]])))))
                s.append(("gradient", _defer(lambda: _f(obj.gradient(vals[pn[0]])))))
        if isinstance(obj, Distribution) and "sqrtprec" in dir(type(obj)) and not isinstance(obj, Posterior):
            def sq():
                if obj.is_cond:
                    return "conditional"
                m_ = obj.sqrtprec
                return _f(m_.toarray() if hasattr(m_, "toarray") else m_)
            s.append(("sqrtprec", _defer(sq)))
        if isinstance(obj, Distribution) and not isinstance(obj, Posterior):
            def draw():
                return _f(obj.sample(1, rng=np.random.RandomState(7)))
            s.append(("sample", _defer(draw)))
        if isinstance(obj, (Distribution, Likelihood)) and pn:
            n0 = pn[0]
            def c1():
                r = obj(**{n0: vals[n0]})
                return [type(r).__name__] + (list(r.get_parameter_names()) if hasattr(r, "get_parameter_names") else [])
            if n0 in vals:
                s.append(("cond:" + n0, _defer(c1)))
        return _force(s, reverse)

    # ------------------------------------------------------------------ pool handling
    def add(self, obj, kind, path, fixed, root="J"):
        o = Obj(obj, kind, path, set(fixed), root)
        if getattr(self, "fault_fired", False):
            self.ctx.count("objects_discarded_after_fault")
            return None                      # an object produced while a callable misbehaved is not kept
        tw, G = self.twin_of(o)
        o.twin_sig = self.sigma(tw, o.fixed, o.root == "J", reverse=True)
        self.pool.append(o)
        if len(self.pool) > 12:
            # retire the oldest derived object (never the roots)
            for i, p in enumerate(self.pool):
                if p.path:
                    del self.pool[i]
                    break
        return o

    def check_all(self, after_op, skip=None):
        ctx = self.ctx
        for o in self.pool:
            if o is skip:
                continue
            sg = self.sigma(o.obj, o.fixed, o.root == "J")
            ctx.count("decisions")
            k = sig_equal(sg, o.twin_sig)
            if k is not None:
                mine = dict(sg).get(k)
                theirs = dict(o.twin_sig).get(k)
                ctx.violate("C11", "signature_differs_from_twin",
                            {"engine": "objhist", "obj_class": type(o.obj).__name__, "key": k.split(":")[0],
                             "root": o.root.split(":")[0], "after": after_op, "derived": bool(o.path)},
                            graph=self.sc["graph"]["graph"], key=k, got=_short(mine), twin=_short(theirs),
                            path=o.path)
                # re-synchronise: forget this object (local oracle; one divergence is reported once)
                o.twin_sig = sg
            if o.path and o.root == "J" and not getattr(self, "fault_fired", False) and not getattr(o, "value_reported", False):
                # C01: an object reached from the joint keeps returning the joint log-density at the complete assignment,
                # also after other views of the same joint were created, evaluated or sampled
                nv = len([v_ for v_ in ctx.violations if v_["property"] == "C01"])
                self.c01_value(o, "kw")
                if len([v_ for v_ in ctx.violations if v_["property"] == "C01"]) > nv:
                    o.value_reported = True

    # ------------------------------------------------------------------ C01 value oracle
    def c01_value(self, o: Obj, how):
        from cuqi.density import EvaluatedDensity
        ctx, vals = self.ctx, self.vals
        if o.root != "J" or any(st.get("special") for st in o.path):
            return
        expected = self.total
        if any(st.get("alt") for st in o.path):
            # a view fixed (partly) at the ALTERNATIVE values: its reference is the pristine joint at that complete assignment
            if not hasattr(o, "alt_total"):
                asg = dict(vals)
                for st in o.path:
                    if st.get("alt"):
                        asg.update({n_: self.vals_alt[n_] for n_ in st["names"]})
                try:
                    o.alt_total = float(np.ravel(self.twinG0["J"].logd(**asg))[0])
                except Exception:
                    o.alt_total = None
            if o.alt_total is None or not np.isfinite(o.alt_total):
                return
            expected = o.alt_total
        obj = o.obj
        try:
            pn = list(obj.get_parameter_names()) if not isinstance(obj, EvaluatedDensity) else []
        except Exception:
            return
        free = [n for n in self.G["names"] if n not in o.fixed]
        sg = {"engine": "objhist", "obj_class": type(obj).__name__, "how": how, "graph": self.sc["graph"]["graph"]}
        if sorted(pn) != sorted(free):
            ctx.violate("C01", "wrong_free_variables", sg, free=free, reported=pn, path=o.path)
            return
        try:
            if how == "pos" and len(pn) >= 1:
                v = obj.logd(*[vals[n] for n in pn])
            else:
                v = obj.logd(**{n: vals[n] for n in pn})
            v = float(np.ravel(np.asarray(v, float))[0])
        except core.SimCrash:
            raise
        except Exception as e:
            if self.fault_fired:
                ctx.count("c01_values_skipped_fault_in_op")     # the evaluation failed because a callable misbehaved
                return
            ctx.violate("C01", "refused_valid", dict(sg, stage="logd"), err=type(e).__name__ + ": " + str(e)[:160],
                        path=o.path)
            return
        if self.fault_fired:
            ctx.count("c01_values_skipped_fault_in_op")     # a callable misbehaved inside this very evaluation
            return
        ctx.count("c01_values")
        if not close(v, expected, 1e-9):
            ctx.violate("C01", "wrong_value", sg, got=v, expected=expected, path=o.path, fixed=sorted(o.fixed))

    def c01_invalid(self, o: Obj):
        """missing / unknown / doubly specified variables must be refused."""
        from cuqi.density import EvaluatedDensity
        ctx, vals = self.ctx, self.vals
        obj = o.obj
        if isinstance(obj, EvaluatedDensity) or o.root != "J":
            return
        try:
            pn = list(obj.get_parameter_names())
        except Exception:
            return
        if not pn:
            return
        sg = {"engine": "objhist", "obj_class": type(obj).__name__, "graph": self.sc["graph"]["graph"]}
        full = {n: vals[n] for n in pn}
        trials = []
        miss = dict(full)
        miss.pop(pn[-1])
        trials.append(("missing", lambda: obj.logd(**miss)))
        trials.append(("unknown", lambda: obj.logd(**dict(full, zzz=1.0))))
        if len(pn) >= 1:
            trials.append(("double", lambda: obj.logd(vals[pn[0]], **full)))
        for kind, fn in trials:
            ctx.count("c01_invalid_trials")
            try:
                r = fn()
            except core.SimCrash:
                raise
            except Exception:
                continue
            try:
                isnum = np.all(np.isfinite(np.asarray(r, float)))
            except Exception:
                isnum = False
            if isnum:
                ctx.violate("C01", "accepted_invalid", dict(sg, invalid=kind), returned=_f(r)[:3])

    # ------------------------------------------------------------------ ops
    def run(self):
        ctx = self.ctx
        G = self.G
        ctx.nontrivial = True
        if not close(self.total, self.total_components, 1e-9):
            ctx.violate("C01", "wrong_value", {"engine": "objhist", "obj_class": "JointDistribution", "how": "sum_of_components",
                                               "graph": self.sc["graph"]["graph"]}, got=self.total, expected=self.total_components)
        if "closed_form" in G:
            cf = float(G["closed_form"](self.vals))
            ctx.count("closed_form_compared")
            ctx.count("decisions")
            if not close(self.total, cf, 1e-8):
                ctx.violate("C01", "wrong_value", {"engine": "objhist", "obj_class": "JointDistribution", "how": "closed_form",
                                                   "graph": self.sc["graph"]["graph"]}, got=self.total, expected=cf)
        self.add(G["J"], "joint", [], set(), "J")
        for n in G["names"]:
            if self.sc.get("components", True):
                self.add(G["dens"][n], "dens", [], set(), "dens:" + n)
        for mname in G["models"]:
            self.add(G["models"][mname], "model", [], set(), "model:" + mname)
        for op in self.case["ops"]:
            k = op["op"]
            ctx.log("op", k, {a: b for a, b in op.items() if a != "op"})
            ctx.count("transitions")
            target = self.pool[op["on"] % len(self.pool)] if "on" in op else None
            skip = None
            self.in_op, self.fault_fired = True, False
            try:
                if k == "fault":
                    tag = op["tag"]
                    self.fault_plan[(tag, self.calls.get(tag, 0) + 1 + op["k"])] = op["kind"]
                    continue
                elif k == "cond":
                    self.op_cond(target, op)
                elif k == "siblings":
                    # two views of ONE conditional component, fixed at different values, alive side by side
                    roots = [o_ for o_ in self.pool if o_.kind == "dens" and not o_.path]
                    if roots:
                        o_ = roots[op["pick"] % len(roots)]
                        for alt in ((False, True) if op["pick"] % 2 else (True, False)):
                            self.op_cond(o_, {"op": "cond", "how": "kw", "pick": op["pick"], "condvars": True, "alt": alt})
                elif k == "eval":
                    self.op_eval(target, op)
                elif k == "invalid":
                    self.c01_invalid(target)
                elif k == "recondition_many":
                    self.op_recondition(target, op)
                elif k == "sampler":
                    self.op_sampler(target, op)
                elif k == "special":
                    self.op_special(target, op)
                elif k == "model_apply":
                    self.op_model_apply(op)
                elif k == "mutate_copy":
                    self.op_mutate_copy(target, op)
                elif k == "compose":
                    self.op_compose(target, op)
                elif k == "unnamed":
                    self.op_unnamed(op)
                elif k == "inplace":
                    self.op_inplace(target, op)
                elif k == "invalid_cond":
                    self.op_invalid_cond(target)
                elif k == "dim_agnostic":
                    self.op_dim_agnostic(op)
                elif k == "testproblem":
                    self.op_testproblem(op)
            except core.SimCrash:
                ctx.count("ops_crashed_by_fault")
            except Exception as e_:
                if not self.fault_fired:
                    import traceback as _tb
                    inner = _tb.extract_tb(e_.__traceback__)[-1].filename
                    if os.sep + "cuqi" + os.sep in inner and k in ("special", "eval", "cond", "siblings", "sampler", "compose"):
                        # the library itself raised on a valid operation of a valid history, with no fault injected
                        ctx.violate("C01", "refused_valid", {"engine": "objhist", "stage": "op:" + k, "exc": type(e_).__name__,
                                                             "graph": self.sc["graph"]["graph"]}, err=str(e_)[:200])
                        continue
                    raise                          # an operation of the harness failed without any injected fault
                ctx.count("ops_failed_under_fault")    # e.g. a NaN hyper-parameter rejected by a constructor check
            finally:
                self.in_op = False
            self.check_all(k)

    def cond_candidates(self, o):
        from cuqi.density import EvaluatedDensity
        if isinstance(o.obj, EvaluatedDensity) or o.kind == "model":
            return []
        try:
            pn = list(o.obj.get_parameter_names())
        except Exception:
            return []
        return [n for n in pn if n in self.vals]

    def op_cond(self, o, op):
        ctx = self.ctx
        cands = self.cond_candidates(o)
        if not cands:
            return
        r = np.random.RandomState(op["pick"])
        k = int(r.randint(1, len(cands) + 1)) if op.get("multi", True) else 1
        if op["how"] == "pos":
            names = cands[:k]                  # positional arguments follow the parameter-name order
        else:
            names = list(r.permutation(cands)[:k])
        if op.get("condvars"):
            try:
                names = [n_ for n_ in o.obj.get_conditioning_variables() if n_ in self.vals]
            except Exception:
                names = []
            if not names:
                return
        step = {"names": names, "how": op["how"]}
        if op.get("alt"):
            step["alt"] = True                 # (objects reached through an alternative value are not judged by the C01
                                               #  value oracle, which needs the one complete assignment)
        sg = {"engine": "objhist", "obj_class": type(o.obj).__name__, "how": op["how"],
              "graph": self.sc["graph"]["graph"], "root": o.root.split(":")[0]}
        try:
            new = self.apply_cond(o.obj, step)
        except core.SimCrash:
            raise
        except Exception as e:
            if o.root == "J" and not self.fault_fired:
                ctx.violate("C01", "refused_valid", dict(sg, stage="condition", n_fixed=len(names)),
                            err=type(e).__name__ + ": " + str(e)[:160], names=names, path=o.path)
            return
        if new is None:
            ctx.violate("C01", "refused_valid", dict(sg, stage="condition_returned_none"), names=names)
            return
        cls = type(new).__name__
        ctx.hit("reduced_to_" + cls)
        if len(o.path) >= 2:
            ctx.hit("copy_of_copy_of_copy")
        no = self.add(new, "derived", o.path + [step], o.fixed | set(names), o.root)
        if no is not None:
            self.c01_value(no, op["how"] if op.get("eval_how") is None else op["eval_how"])

    def op_eval(self, o, op):
        what = op["what"]
        obj = o.obj
        vals = self.vals
        if o.kind == "model":
            _try(lambda: obj.forward(np.linspace(-1, 1, obj.domain_dim)))
            return
        if what == "logd":
            self.c01_value(o, op.get("how", "kw"))
            pn = _try(lambda: list(obj.get_parameter_names()))
            if pn[0] == "ok" and all(n in vals for n in pn[1]):
                kw = _try(lambda: _f(obj.logd(**{n: vals[n] for n in pn[1]})))
                # by position or by keyword: the same number (component densities with open conditioning variables too)
                ps = _try(lambda: _f(obj.logd(*[vals[n] for n in pn[1]])))
                if not self.fault_fired and kw[0] == "ok" and ps[0] == "ok" and np.all(np.isfinite(kw[1])):
                    self.ctx.count("c01_values")
                    if not close(kw[1], ps[1], 1e-9):
                        self.ctx.violate("C01", "wrong_value", {"engine": "objhist", "obj_class": type(obj).__name__,
                                                                "how": "positional_vs_keyword", "graph": self.sc["graph"]["graph"]},
                                         keyword=kw[1], positional=ps[1], names=pn[1])
        elif what == "gradient":
            pn = _try(lambda: list(obj.get_parameter_names()))
            if pn[0] == "ok" and len(pn[1]) == 1:
                _try(lambda: obj.gradient(vals[pn[1][0]]))
        elif what == "sample":
            if hasattr(obj, "sample"):
                def draw_and_edit(**kw):
                    # the caller edits what was handed out (a sample is the caller's to keep): the object that produced it
                    # must not see that
                    out = obj.sample(op.get("N", 1), **kw)
                    arr = out.samples if hasattr(out, "samples") else out
                    if isinstance(arr, np.ndarray) and arr.size and arr.flags.writeable:
                        arr[...] = arr * 2.0 + 1.0
                        self.ctx.hit("handed_out_sample_edited_by_caller")
                _try(lambda: draw_and_edit(rng=np.random.RandomState(op.get("pick", 1))))
                _try(lambda: draw_and_edit())
        elif what == "observers":
            for attr in ("name", "dim", "geometry", "is_cond"):
                _try(lambda: getattr(obj, attr))
            _try(lambda: obj.get_parameter_names())
            _try(lambda: obj.get_conditioning_variables())
            _try(lambda: repr(obj))

    def op_recondition(self, o, op):
        """re-condition the same object thousands of times with changing values, as Gibbs sampling does"""
        cands = self.cond_candidates(o)
        if not cands or o.kind == "model":
            return
        self.ctx.fault("recondition_many")
        r = np.random.RandomState(op["pick"])
        n = cands[int(r.randint(len(cands)))]
        base = np.asarray(self.vals[n], float)
        for i in range(int(op["times"])):
            v = base * (1 + 0.01 * (i % 7)) + (0.001 * i if base.ndim else 0.0)
            try:
                res = o.obj(**{n: v})
                if i % 50 == 0 and hasattr(res, "get_parameter_names"):
                    res.get_parameter_names()
            except core.SimCrash:
                raise
            except Exception:
                break
        self.ctx.hit("reconditioned_%d+" % (1000 if op["times"] >= 1000 else 100))
        # the same number of conditionings as a CHAIN (each result conditioned again, as in a loop  post = post(...)): the
        # last link is still a copy of the original and carries its name
        from cuqi.density import Density
        if op.get("chain") and isinstance(o.obj, Density):
            c_ = o.obj
            try:
                want = o.obj.name
                for i in range(int(op["times"])):
                    c_ = c_()
            except core.SimCrash:
                raise
            except Exception:
                return
            self.ctx.count("decisions")
            got = _try(lambda: c_.name)
            if got != ("ok", want) and not self.fault_fired:
                self.ctx.violate("C11", "name_lost_along_a_chain_of_copies",
                                 {"engine": "objhist", "obj_class": type(o.obj).__name__, "links": ">=1000" if op["times"] >= 1000 else "<1000"},
                                 got=str(got)[:80], expected=want)

    def op_sampler(self, o, op):
        """run a short sampler on a conditioned copy"""
        import cuqi.experimental.mcmc as M
        import cuqi.sampler as LS
        from cuqi.distribution import Posterior, JointDistribution, Distribution
        obj = o.obj
        self.ctx.fault("sampler_run_on_copy")
        if op["sampler"] == "problem":
            # the high-level interface: a BayesianProblem built from the two factors of a posterior, then asked for prior
            # samples / posterior samples / a point estimate.  Neither the problem's own posterior nor the objects it was
            # built from may behave differently afterwards.
            if not isinstance(obj, Posterior):
                posts = [o_ for o_ in self.pool if isinstance(o_.obj, Posterior) and
                         not any(s_.get("special") == "problem" for s_ in o_.path)]
                if not posts:
                    # reach a posterior first: everything but the main unknown is fixed on the joint in one call
                    J = self.pool[0]
                    names = [n_ for n_ in self.G["names"] if n_ != "x" and n_ in self.vals]
                    if "x" not in self.G["names"] or not names:
                        return
                    step0 = {"names": names, "how": "kw"}
                    try:
                        with core.quiet():
                            P = self.apply_cond(J.obj, step0)
                    except core.SimCrash:
                        raise
                    except Exception:
                        return
                    if not isinstance(P, Posterior):
                        return
                    o = self.add(P, "derived", [step0], set(names), "J")
                    if o is None:
                        return
                    posts = [o]
                o = posts[op.get("pick", 0) % len(posts)]
                obj = o.obj
            step = {"names": [], "how": "kw", "special": "problem"}
            with core.quiet():
                try:
                    new = self.apply_cond(obj, step)
                except core.SimCrash:
                    raise
                except Exception:
                    return
                bp = self._last_bp
                if self.add(new, "derived", o.path + [step], o.fixed, o.root) is None:
                    return
                # the problem's own likelihood is watched too (an estimator may switch options on it)
                self.add(bp.likelihood, "derived", o.path + [{"names": [], "how": "kw", "special": "problem_lik"}], o.fixed, o.root)
                act = op.get("act", "sample_prior")
                _try(lambda: bp.MAP() if act == "MAP" else (bp.ML() if act == "ML" else getattr(bp, act)(6)))
            self.ctx.hit("problem_interface_" + act)
            return
        if op["sampler"] in ("HybridGibbs", "Gibbs") and not (isinstance(obj, JointDistribution) and not isinstance(obj, Distribution)
                                                              and not any(n_.startswith("y") for n_ in obj.get_parameter_names())):
            # reach a joint over the unknowns first: the data are fixed on the root joint
            cands = [o_ for o_ in self.pool if isinstance(o_.obj, JointDistribution) and not isinstance(o_.obj, Distribution)
                     and o_.root == "J" and not any(n_.startswith("y") for n_ in o_.obj.get_parameter_names())
                     and not any(s_.get("alt") or s_.get("special") for s_ in o_.path)]
            if not cands:
                ynames = [n_ for n_ in self.G["names"] if n_.startswith("y") and n_ in self.vals]
                J0 = self.pool[0]
                if not ynames or J0.root != "J" or J0.path:
                    return
                step0 = {"names": ynames, "how": "kw"}
                try:
                    with core.quiet():
                        Jy = self.apply_cond(J0.obj, step0)
                except core.SimCrash:
                    raise
                except Exception:
                    return
                if not (isinstance(Jy, JointDistribution) and not isinstance(Jy, Distribution)):
                    return
                o2 = self.add(Jy, "derived", [step0], set(ynames), "J")
                if o2 is None:
                    return
                cands = [o2]
            o = cands[op.get("pick", 0) % len(cands)]
            obj = o.obj
        with core.quiet():
            if isinstance(obj, Posterior) and op["sampler"] in ("MH", "LinearRTO", "legacyMH"):
                def go():
                    if op["sampler"] == "MH":
                        M.MH(obj, scale=0.2, initial_point=_f(self.vals[obj.get_parameter_names()[0]])).sample(5)
                    elif op["sampler"] == "legacyMH":
                        LS.MH(obj, scale=0.2, x0=_f(self.vals[obj.get_parameter_names()[0]])).sample(5)
                    else:
                        M.LinearRTO(obj, maxit=5).sample(3)
                _try(go)
                self.ctx.hit("sampler_on_posterior")
            elif isinstance(obj, JointDistribution) and not isinstance(obj, Distribution) and op["sampler"] in ("HybridGibbs", "Gibbs"):
                pn = obj.get_parameter_names()

                def go():
                    if op["sampler"] == "HybridGibbs":
                        strat = {n: M.MH(scale=0.2, initial_point=_f(self.vals[n])) for n in pn}
                        g_ = M.HybridGibbs(obj, strat)
                        g_.sample(3)
                        S_ = g_.get_samples()
                    else:
                        mk_ = lambda target: LS.MH(target, scale=0.2)
                        S_ = LS.Gibbs(obj, {n: mk_ for n in pn}).sample(3)
                    return {n: np.array(S_[n].samples, float) for n in pn}
                if all(n in self.vals for n in pn) and "y" not in pn and "y1" not in pn:
                    # the SAME joint is handed to two sampler runs on the same stretch of the random tape: a run leaves
                    # nothing behind on the object it was given, so the second run reproduces the first
                    tape = np.random.get_state()
                    a_ = _try(go)
                    np.random.set_state(tape)
                    b_ = _try(go)
                    self.ctx.hit("gibbs_on_joint")
                    self.ctx.count("decisions")
                    same = a_[0] == b_[0] and (a_[0] != "ok" or all(np.array_equal(a_[1][n], b_[1][n], equal_nan=True) for n in pn))
                    if not same and not self.fault_fired:
                        self.ctx.violate("C11", "second_sampler_run_on_same_object_differs",
                                         {"engine": "objhist", "sampler": op["sampler"], "graph": self.sc["graph"]["graph"]})

    def op_special(self, o, op):
        from cuqi.distribution import JointDistribution, Distribution
        obj = o.obj
        ctx = self.ctx
        if op["what"] == "to_likelihood" and isinstance(obj, Distribution) and o.root.startswith("dens:"):
            n = obj.name
            if n in self.vals and not o.path:
                step = {"names": [n], "how": "kw", "special": "to_likelihood"}
                new = self.apply_cond(obj, step)
                self.add(new, "derived", o.path + [step], o.fixed | {n}, o.root)
                ctx.hit("to_likelihood")
        elif op["what"] == "stacked" and isinstance(obj, JointDistribution) and not isinstance(obj, Distribution):
            pn = obj.get_parameter_names()
            if not pn or not all(n in self.vals for n in pn):
                return
            if self.sc["graph"].get("xform") == "cuqi_fun":
                return                        # (a stacked vector is a vector of parameters: no function-value form)
            st = obj._as_stacked()
            v = float(np.ravel(st.logd(np.hstack([_f(self.vals[n]) for n in pn])))[0])
            w = float(np.ravel(obj.logd(**{n: self.vals[n] for n in pn}))[0])
            ctx.hit("stacked_view")
            if self.fault_fired:
                return
            ctx.count("c01_values")
            if not close(v, w, 1e-9):
                ctx.violate("C01", "wrong_value", {"engine": "objhist", "obj_class": "_StackedJointDistribution",
                                                   "how": "stacked", "graph": self.sc["graph"]["graph"]}, got=v, expected=w)
            if o.root == "J" and not any(s_.get("special") or s_.get("alt") for s_ in o.path) and not close(w, self.total, 1e-9):
                ctx.violate("C01", "wrong_value", {"engine": "objhist", "obj_class": type(obj).__name__,
                                                   "how": "kw", "graph": self.sc["graph"]["graph"]}, got=w, expected=self.total)

    def op_testproblem(self, op):
        """A prior the user built is handed to a shipped test problem (which keeps its own copy); the user's object must
        behave afterwards like a twin that was never handed over."""
        import cuqi.testproblem as TPm
        from cuqi.distribution import Gaussian, GMRF
        ctx = self.ctx
        kind = op["tp"]
        k = 4
        n_ = k * k if kind == "Deconvolution2D" else 8

        def mk():
            if op["prior"] == "gmrf" and kind != "Deconvolution2D":
                return GMRF(np.zeros(n_), 2.0, name="x")
            return Gaussian(np.zeros(n_), 0.7, name="x")

        def sig(d_):
            g_ = d_.geometry
            x_ = np.linspace(-1, 1, n_)
            return [("geometry", _try(lambda: [type(g_).__name__, list(g_.par_shape), list(np.atleast_1d(g_.fun_shape))])),
                    ("dim", _try(lambda: float(d_.dim))), ("logd", _try(lambda: _f(d_.logd(x_)))),
                    ("sample", _try(lambda: _f(d_.sample(1, rng=np.random.RandomState(3))))),
                    ("funvals", _try(lambda: list(np.shape(d_.sample(1, rng=np.random.RandomState(3)).funvals))))]
        user, twin = mk(), mk()
        with core.quiet():
            try:
                if kind == "Deconvolution2D":
                    tp = TPm.Deconvolution2D(dim=k, PSF_size=3, prior=user)
                elif kind == "Deconvolution1D":
                    tp = TPm.Deconvolution1D(dim=n_, PSF_size=3, prior=user)
                else:
                    tp = TPm.Poisson1D(dim=n_ + 1, prior=user) if False else TPm.Deconvolution1D(dim=n_, PSF="moffat", PSF_size=3, prior=user)
                _try(lambda: tp.posterior.logd(np.zeros(n_)))
            except core.SimCrash:
                raise
            except Exception:
                return
        ctx.hit("prior_handed_to_testproblem")
        ctx.count("decisions")
        kdiff = sig_equal(sig(user), sig(twin))
        if kdiff is not None:
            ctx.violate("C11", "signature_differs_from_twin",
                        {"engine": "objhist", "obj_class": type(user).__name__, "key": kdiff, "root": "user_prior", "after": "testproblem",
                         "derived": False}, tp=kind)

    def op_dim_agnostic(self, op):
        """A conditional distribution whose dimension is not known until it is conditioned (no geometry, parameters
        left open), conditioned several times with parameters of DIFFERENT length and used in between: every copy must
        behave like the copy of a fresh original that was conditioned only once."""
        from cuqi.distribution import Normal, Laplace
        ctx = self.ctx
        r = np.random.RandomState(op["pick"])
        sizes = [int(v) for v in r.permutation([1, 3, 4, 5])[:3]]
        fam = op["fam"]

        def make():
            if fam == "normal":
                return Normal(mean=None, std=None, name="zq")
            return Laplace(location=None, scale=None, name="zq")

        def cond(dist, k):
            mu = np.linspace(-1, 1, k) if k > 1 else 0.3
            return dist(mean=mu, std=0.7) if fam == "normal" else dist(location=mu, scale=0.6)

        def sig(c, k):
            x = np.linspace(0, 1, k) if k > 1 else np.array([0.2])
            return [("dim", _try(lambda: float(c.dim))), ("logd", _try(lambda: _f(c.logd(x)))),
                    ("sample", _try(lambda: _f(c.sample(1, rng=np.random.RandomState(3))))),
                    ("orig_dim", _try(lambda: None if orig.dim is None else float(orig.dim)))]
        orig = make()
        ctx.fault("dimension_inferred_on_copies")
        for k in sizes:
            c = cond(orig, k)
            got = sig(c, k)
            saved, orig_ = orig, None
            fresh_orig = make()
            orig = fresh_orig                     # sig() reads `orig`: evaluate the twin against its own fresh original
            want = sig(cond(fresh_orig, k), k)
            orig = saved
            ctx.count("decisions")
            bad = sig_equal(got, want)
            if bad is not None:
                ctx.violate("C11", "signature_differs_from_twin",
                            {"engine": "objhist", "obj_class": type(c).__name__, "key": "dim_agnostic:" + bad, "root": "dens",
                             "after": "dim_agnostic", "derived": True}, sizes=sizes, size=k, got=_short(dict(got).get(bad)),
                            twin=_short(dict(want).get(bad)))
                return
        ctx.hit("dimension_agnostic_conditional")

    def op_invalid_cond(self, o):
        """a conditioning call with an unknown keyword on a distribution / likelihood (or a copy of one) is refused -
        and, like every refused call, leaves the object, its original and its siblings as they were"""
        from cuqi.distribution import Distribution, JointDistribution
        from cuqi.likelihood import Likelihood
        obj = o.obj
        if not isinstance(obj, (Distribution, Likelihood)) or isinstance(obj, JointDistribution):
            return
        self.ctx.fault("refused_conditioning_call")
        try:
            obj(zzz_unknown=1.0)
        except core.SimCrash:
            raise
        except Exception:
            return
        # (a distribution that accepts the unknown keyword is not judged here - C01 checks evaluations, not this)

    def op_inplace(self, o, op):
        """The caller keeps the values in numpy arrays, updates them IN PLACE (as an MCMC loop does) and evaluates
        again with the same array objects: the result must be that of the current contents."""
        from cuqi.density import EvaluatedDensity
        ctx = self.ctx
        if o.root != "J" or o.kind == "model" or isinstance(o.obj, EvaluatedDensity) or \
                any(st.get("special") or st.get("alt") for st in o.path):
            return
        try:
            pn = list(o.obj.get_parameter_names())
        except Exception:
            return
        if not pn or not all(n in self.vals for n in pn):
            return
        if not hasattr(self, "live"):
            self.live = {n: np.array(v, dtype=float, copy=True).reshape(np.shape(v) or (1,)) for n, v in self.vals.items()}
        live = self.live
        sg = {"engine": "objhist", "obj_class": type(o.obj).__name__, "how": "inplace", "graph": self.sc["graph"]["graph"]}
        twinJ = self.twinG0["J"]
        fixed_vals = {n: self.vals[n] for n in o.fixed}
        for rep in range(3):
            try:
                got = float(np.ravel(o.obj.logd(**{n: live[n] for n in pn}))[0])
                full = dict(fixed_vals)
                full.update({n: np.array(live[n], copy=True) for n in pn})
                ref = float(np.ravel(twinJ.logd(**full))[0])
            except core.SimCrash:
                raise
            except Exception:
                return
            if self.fault_fired:
                return
            ctx.count("c01_values")
            if np.isfinite(ref) and not close(got, ref, 1e-9):
                ctx.violate("C01", "wrong_value", sg, got=got, expected=ref, repetition=rep)
                break
            for n in pn:                       # update the same array objects in place
                live[n] *= 1.0 + 0.01 * (rep + 1)
        ctx.hit("values_updated_in_place")
        # C11: the evaluations above must not have changed what the object returns later - also at a point whose value
        # equals the current content of the re-used buffers (fresh arrays), compared with a twin that never saw them
        try:
            tw, _G = self.twin_of(o)
            fresh = {n: np.array(live[n], copy=True) for n in pn}
            a = float(np.ravel(o.obj.logd(**fresh))[0])
            b = float(np.ravel(tw.logd(**{n: np.array(live[n], copy=True) for n in pn}))[0])
        except core.SimCrash:
            raise
        except Exception:
            return
        if not self.fault_fired and np.isfinite(b) and not close(a, b, 1e-9):
            ctx.violate("C11", "signature_differs_from_twin",
                        {"engine": "objhist", "obj_class": type(o.obj).__name__, "key": "logd_at_value_of_reused_buffer",
                         "root": o.root.split(":")[0], "after": "inplace", "derived": bool(o.path)}, got=a, twin=b)

    def op_unnamed(self, op):
        """Originals created WITHOUT name= (CUQIpy then infers the name from the caller's variable names), conditioned
        in different orders relative to the first read of the name: a conditioned copy keeps the random-variable name
        of its original.  The local variable names below are the expected names."""
        from cuqi.distribution import Gaussian, Gamma
        ctx = self.ctx
        n = 3
        variant = op["variant"]
        data = np.linspace(-1, 1, n)
        got = {}
        try:
            if variant == "evaluated_first":
                xq = Gaussian(np.zeros(n), 0.8)
                first = xq(xq=data)                     # conditioned before the name was ever read
                got = {"copy": first.name, "orig": xq.name, "want": "xq"}
            elif variant == "name_read_first":
                xq = Gaussian(np.zeros(n), 0.8)
                _ = xq.name
                first = xq(xq=data)
                got = {"copy": first.name, "orig": xq.name, "want": "xq"}
            elif variant == "likelihood":
                yq = Gaussian(np.zeros(n), cov=lambda s: 1 / s)
                first = yq(yq=data)                     # -> Likelihood
                got = {"copy": first.name, "orig": yq.name, "want": "yq"}
            elif variant == "partial_then_data":
                yq = Gaussian(np.zeros(n), cov=lambda s: 1 / s)
                mid = yq(s=2.0)
                first = mid(yq=data)                    # copy of a copy -> EvaluatedDensity
                got = {"copy": first.name, "mid": mid.name, "orig": yq.name, "want": "yq"}
            elif variant == "positional":
                xq = Gamma(2.0, 1.0)
                first = xq(1.3)                         # positional main parameter
                got = {"copy": first.name, "orig": xq.name, "want": "xq"}
        except core.SimCrash:
            raise
        except Exception as e:
            ctx.violate("C11", "unnamed_original", {"engine": "objhist", "variant": variant, "cls": "raised"},
                        err=type(e).__name__ + ": " + str(e)[:160])
            return
        ctx.count("decisions")
        ctx.hit("names_inferred_from_stack")
        want = got.pop("want")
        if any(v != want for v in got.values()):
            ctx.violate("C11", "unnamed_original", {"engine": "objhist", "variant": variant, "cls": "name_not_kept"},
                        names=got, expected=want)

    def op_compose(self, o, op):
        """use a derived, fully specified distribution as a component of a *new* joint and condition that joint a few
        times (a reduced conditional re-used in a larger model): the derived object must stay what it was"""
        from cuqi.distribution import Distribution, Posterior, JointDistribution, Gaussian

        def eligible(p):
            ob = p.obj
            if not isinstance(ob, Distribution) or isinstance(ob, (Posterior, JointDistribution)) or p.kind == "model":
                return False
            try:
                return not ob.is_cond
            except Exception:
                return False
        if op.get("times", 3) % 2 == 1 and "x" in self.G["dens"]:
            # a reduced distribution that CARRIES CONSTANTS: the sub-joint of the prior of x and the hyper-priors it depends
            # on, with the hyper-parameters fixed (what is left is a plain distribution for x plus the evaluated hyper-priors)
            try:
                dx = self.G["dens"]["x"]
                hyp = [n_ for n_ in dx.get_conditioning_variables() if n_ in self.G["dens"] and n_ in self.vals]
                if hyp and all(not self.G["dens"][h_].get_conditioning_variables() for h_ in hyp):
                    sub = JointDistribution(dx, *[self.G["dens"][h_] for h_ in hyp])(**{h_: self.vals[h_] for h_ in hyp})
                    if isinstance(sub, Distribution) and not isinstance(sub, (Posterior, JointDistribution)):
                        o = Obj(sub, "derived", [{"names": hyp, "how": "kw", "special": "subjoint"}], set(hyp), "dens:x")
                        self.ctx.hit("reduced_distribution_with_constants")
            except core.SimCrash:
                raise
            except Exception:
                pass
        if not eligible(o):
            # prefer a distribution that was itself produced by a reduction (it carries the constants of the variables
            # fixed on the way), else any unconditional distribution in the pool
            cands = [p for p in self.pool if eligible(p) and p.path] or [p for p in self.pool if eligible(p)]
            if not cands:
                return
            o = cands[int(op.get("times", 3)) % len(cands)]
        obj = o.obj
        try:
            if obj.is_cond:
                return
            w = Gaussian(np.zeros(2), 1.0, name="w_extra")
            J2 = JointDistribution(obj, w)
        except Exception:
            return
        self.ctx.fault("composed_into_new_joint")
        for i in range(int(op.get("times", 3))):
            try:
                r = J2(w_extra=np.array([0.5, -0.25]) * (1 + 0.1 * i))
                if hasattr(r, "get_parameter_names"):
                    r.get_parameter_names()
            except core.SimCrash:
                raise
            except Exception:
                break
        self.ctx.hit("derived_object_reused_in_new_joint")
        # ... and as the PRIOR of a new data distribution: the posterior of the new joint evaluates to the new joint's
        # log-density (the constants the reduced distribution carries from the variables fixed earlier included)
        try:
            nm = obj.name
            dim_ = int(obj.dim)
            xv = np.asarray(self.vals[nm], float).reshape(-1) if nm in self.vals else np.linspace(0.1, 0.5, dim_)
            if xv.size != dim_:
                return
            yy = Gaussian(graphs.named_fn(nm, lambda v: 0.5 * np.asarray(v, float).reshape(-1)), 0.3, geometry=dim_, name="y_extra")
            J3 = JointDistribution(yy, obj)
            dat = np.linspace(-0.3, 0.4, dim_)
            a_ = float(np.ravel(J3(y_extra=dat).logd(xv))[0])
            b_ = float(np.ravel(J3.logd(**{"y_extra": dat, nm: xv}))[0])
            c_ = float(np.ravel(J3(**{nm: xv}).logd(dat))[0])
        except core.SimCrash:
            raise
        except Exception:
            return
        if self.fault_fired or not (np.isfinite(a_) and np.isfinite(b_)):
            return
        self.ctx.count("c01_values")
        if not close(a_, b_, 1e-9) or not close(c_, b_, 1e-9):
            self.ctx.violate("C01", "wrong_value", {"engine": "objhist", "obj_class": type(obj).__name__, "how": "reused_as_prior",
                                                    "graph": self.sc["graph"]["graph"]}, posterior=a_, joint=b_, likelihood_view=c_)

    def op_mutate_copy(self, o, op):
        """NOT GENERATED (kept for experiments only).  Explicit setters on a derived object are not "conditioning,
        evaluating or sampling" (soundness rule 5): e.g. Likelihood.enable_FD() documentedly delegates to the shared
        underlying distribution, so a first version that generated this op reported a by-design sharing as a C11
        violation - the check demanded more than the property states and the op was withdrawn."""
        if not o.path or o.kind == "model":
            return
        obj = o.obj
        what = op["what"]
        done = False
        try:
            if what == "enable_FD" and hasattr(obj, "enable_FD"):
                obj.enable_FD(1e-6)
                done = True
            elif what == "set_geometry" and hasattr(obj, "geometry") and np.isscalar(getattr(obj, "dim", None)):
                from cuqi.geometry import Continuous1D
                obj.geometry = Continuous1D(int(obj.dim))
                done = True
            elif what == "set_param":
                for attr in ("mean", "cov", "prec", "scale", "location", "rate"):
                    v = getattr(obj, attr, None)
                    if v is not None and not callable(v) and np.ndim(v) <= 1 and attr in getattr(obj, "get_mutable_variables", lambda: [])():
                        setattr(obj, attr, np.asarray(v, float) * 1.5 + 0.1)
                        done = True
                        break
        except Exception:
            pass
        if done:
            self.ctx.fault("setter_on_derived_copy")
            self.pool = [p for p in self.pool if p is not o]

    def op_model_apply(self, op):
        """model(distribution) / model @ distribution only renames the input of a *copy*"""
        from cuqi.distribution import Gaussian
        ms = self.G["models"]
        if not ms:
            return
        key = sorted(ms)[op["pick"] % len(ms)]
        Mo = ms[key]
        try:
            import copy as _copy
            # an equal but DISTINCT geometry object (handing the model's own geometry object to another distribution
            # would be the caller's aliasing, not the library's)
            q = Gaussian(np.zeros(Mo.domain_dim), 1.0, name="q%d" % (op["pick"] % 3),
                         geometry=_copy.deepcopy(Mo.domain_geometry))
        except Exception:
            q = Gaussian(np.zeros(Mo.domain_dim), 1.0, name="q%d" % (op["pick"] % 3))
        _try(lambda: Mo(q))
        _try(lambda: Mo @ q)
        self.ctx.hit("model_applied_to_distribution")


def _short(v):
    if v is None:
        return None
    tag, val = v
    if tag == "exc":
        return "raises " + str(val)
    try:
        a = _f(val)
        return [float(x) for x in a[:4]]
    except Exception:
        return str(val)[:80]


TAGS = {"two_lik_shared": ["y2.cov"], "mrf2d": [], "mapped_x": ["x.prec"], "heat_pde": ["y.cov"], "userdef_x": ["y.cov"], "gamma_mv": [], "kl_nonlin": ["y.cov"], "lin_step": ["y.cov"], "selfnamed": ["y.cov"], "cov_sdt": ["y.cov"], "cov_sd": ["y.cov"], "direct_param": ["y.cov"], "sigdep_x": ["x.prec", "y.cov"], "reg_d": ["x.prec"], "lin_geom": ["y.cov"], "lognormal_cov_s": ["x.cov"], "lin_sqrtprecF": ["y.cov"], "lin_s": ["y.cov"], "lin_d_s": ["x.prec", "y.cov"], "gmrf_d_s": ["x.prec", "y.prec"], "lmrf_d": ["x.scale"],
        "two_lik": ["y2.cov"], "nonlin": ["y.cov"], "xz_s": ["y.cov"], "laplace_b": ["x.scale"],
        "mean_m": ["x.mean", "y.cov"], "cmrf_d": ["x.scale"], "lognormal": ["y.cov"]}


def gen_case(r, tier):
    g = r.choice([x for x in graphs.GRAPHS if x != "reg_s"] + ["xz_s", "cov_sd", "cov_sdt", "gmrf_d_s", "mapped_x", "lognormal_cov_s"])      # callables with two arguments: twice as likely
    n = r.randint(2, 5)
    rec = {"graph": g, "n": n, "m": n + r.randint(0, 2), "zseed": r.randrange(1, 10 ** 6),
           "bc": r.choice(["zero", "zero", "neumann"])}
    if g == "mrf2d":
        rec["mrf"] = r.choice(["gmrf", "lmrf"])
    if g == "mapped_x":
        rec["xform"] = r.choice(["array", "cuqi_par", "cuqi_fun", "cuqi_fun"])
    sc = {"graph": rec, "components": r.random() < 0.7}
    ops = []
    for _ in range(r.randint(8, 28)):
        x = r.random()
        on = r.randrange(64)
        prev = [o_ for o_ in ops if o_["op"] == "cond"]
        if x < 0.03:
            ops.append({"op": "siblings", "pick": r.randrange(10 ** 6)})
        elif x < 0.07 and prev:
            # a SIBLING: the same parent, the same variables, the other value - two conditioned views of one object
            # alive side by side
            o_ = r.choice(prev)
            ops.append(dict(o_, alt=not o_["alt"], how=r.choice(["kw", o_["how"]])))
        elif x < 0.42:
            ops.append({"op": "cond", "on": on, "how": r.choice(["kw", "kw", "pos"]), "pick": r.randrange(10 ** 6),
                        "multi": r.random() < 0.6, "alt": r.random() < 0.35})
        elif x < 0.62:
            ops.append({"op": "eval", "on": on, "what": r.choice(["logd", "logd", "gradient", "sample", "observers"]),
                        "how": r.choice(["kw", "pos"]), "N": r.choice([1, 3]), "pick": r.randrange(1000)})
        elif x < 0.70:
            ops.append({"op": "invalid", "on": on})
        elif x < 0.76:
            ops.append({"op": "recondition_many", "on": on, "times": r.choice([200, 500, 2000]), "pick": r.randrange(1000),
                        "chain": r.random() < 0.5})
        elif x < 0.82:
            ops.append({"op": "sampler", "on": on, "sampler": r.choice(["MH", "LinearRTO", "legacyMH", "HybridGibbs", "Gibbs", "problem", "problem"]),
                        "pick": r.randrange(100), "act": r.choice(["ML", "ML", "MAP", "sample_posterior"] if g in ("kl_nonlin", "heat_pde", "mapped_x")
                                        else ["sample_prior", "sample_prior", "sample_posterior", "MAP", "ML"])})
        elif x < 0.90:
            ops.append({"op": "special", "on": on, "what": r.choice(["to_likelihood", "stacked"])})
        elif x < 0.915:
            ops.append({"op": "model_apply", "pick": r.randrange(1000)})
        elif x < 0.935:
            ops.append({"op": "compose", "on": on, "times": r.choice([1, 3, 10])})
        elif x < 0.95:
            ops.append({"op": "unnamed", "variant": r.choice(["evaluated_first", "name_read_first", "likelihood",
                                                              "partial_then_data", "positional"])})
        elif x < 0.965:
            ops.append({"op": "inplace", "on": on})
        elif x < 0.977:
            ops.append({"op": "invalid_cond", "on": on})
        elif x < 0.981:
            ops.append({"op": "testproblem", "tp": r.choice(["Deconvolution2D", "Deconvolution2D", "Deconvolution1D", "other"]),
                        "prior": r.choice(["gauss", "gmrf"])})
        elif x < 0.987:
            ops.append({"op": "dim_agnostic", "pick": r.randrange(10 ** 6), "fam": r.choice(["normal", "laplace"])})
        else:
            if TAGS[g]:
                ops.append({"op": "fault", "tag": r.choice(TAGS[g]), "k": r.randint(0, 6), "kind": r.choice(["raise", "nan"])})
    if g == "userdef_x":
        # the user-defined prior itself is drawn from (and the draws edited) at two places of the history
        sc["components"] = True
        for _ in range(2):
            ops.insert(r.randint(0, len(ops)), {"op": "eval", "on": 2, "what": "sample", "how": "kw", "N": r.choice([1, 1, 3]),
                                                "pick": r.randrange(1000)})
    return {"scenario": sc, "ops": ops}


class ObjHistEngine(EngineBase):
    name = "objhist"
    real = ["cuqi.distribution.JointDistribution/_StackedJointDistribution/MultipleLikelihoodPosterior/Posterior, "
            "Distribution._condition, Density._make_copy, Likelihood, EvaluatedDensity, Gaussian (4 parameterisations), GMRF, LMRF, "
            "CMRF, Gamma, Laplace, Lognormal; cuqi.model.Model/LinearModel applied to distributions; short runs of experimental "
            "MH/LinearRTO/HybridGibbs and legacy MH on conditioned copies"]
    stub = ["hyper-parameter callables (named closures routed through a logging / fault-injecting hook)",
            "private RandomState for signature draws", "global numpy.random tape"]
    assumptions = ["the twin is rebuilt from the recipe by the same constructors; equality of signatures is judged with "
                   "|a-b| <= 1e-9(1+|a|+|b|)", "explicit mutators (enable_FD, attribute assignment) are not generated: they are not "
                   "conditioning, evaluating or sampling",
                   "C01 reference value is the twin joint's own logd at the complete assignment"]
    rule = ("objhist: one of 11 hierarchical graphs (2-4 variables; Gaussian in cov/prec form, GMRF, LMRF, CMRF, Gamma, Laplace, "
            "Lognormal; linear, nonlinear and two-argument forward models; hyper-parameters through named callables), the joint, its "
            "component densities and its forward models as originals, 8-28 ops over condition (keyword / positional / single / "
            "several / repeated), evaluate, invalid evaluation, re-condition 200-2000 times, sampler run on a copy, to_likelihood, "
            "stacked view, model application, lambda faults (raise / NaN at the k-th call)")

    def gen(self, r, tier):
        return gen_case(r, tier)

    def run(self, case, ctx):
        sim = core.SimRandom(ctx)
        sim.install()
        try:
            ObjRun(ctx, case).run()
        finally:
            sim.uninstall()
