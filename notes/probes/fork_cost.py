import os, time, json, sys, warnings
warnings.filterwarnings("ignore")
import numpy as np, cuqi
t=time.time(); n=200
for i in range(n):
    r,w=os.pipe()
    pid=os.fork()
    if pid==0:
        os.close(r); np.random.seed(i); os.write(w, json.dumps({"i":i,"v":float(np.random.rand())}).encode()); os._exit(0)
    os.close(w); data=os.read(r,65536); os.close(r); os.waitpid(pid,0)
print("fork/run ms:", (time.time()-t)/n*1000)
