import numpy as np, cuqi, warnings, io, contextlib, os, tempfile
warnings.filterwarnings("ignore")
import cuqi.experimental.mcmc as M
import cuqi.experimental.mcmc._sampler as S, cuqi.experimental.mcmc._gibbs as G
class P:
    def __init__(s,it): s.it=it
    def __iter__(s): return iter(s.it)
    def set_postfix_str(s,x): pass
S.tqdm=lambda it,*a,**k: P(it); G.tqdm=lambda it,*a,**k: P(it)
from cuqi.distribution import Gaussian, Gamma, LMRF, Posterior, UserDefinedDistribution
from cuqi.implicitprior import RegularizedGaussian
rs=np.random.RandomState(3)
n=4; A=rs.randn(6,n); yobs=rs.randn(6)
def lin_post(prior):
    x=prior
    y=Gaussian(cuqi.model.LinearModel(A)(x), 0.5, name='y')
    return Posterior(y.to_likelihood(yobs), x)
gp=lambda: lin_post(Gaussian(np.zeros(n),1.0,name='x'))
ud=UserDefinedDistribution(dim=n, logpdf_func=lambda x:-0.5*float(x@x)-0.1*float(np.sum(x**4)), gradient_func=lambda x:-x-0.4*x**3)
mk={
 'MH':lambda: M.MH(ud,scale=0.7),
 'CWMH':lambda: M.CWMH(ud,scale=0.7),
 'PCN':lambda: M.PCN(gp(),scale=0.3),
 'ULA':lambda: M.ULA(ud,scale=0.05),
 'MALA':lambda: M.MALA(ud,scale=0.3),
 'NUTS':lambda: M.NUTS(ud,max_depth=4),
 'NUTSfixed':lambda: M.NUTS(ud,max_depth=4,step_size=0.3),
 'LinearRTO':lambda: M.LinearRTO(gp(),maxit=50,tol=1e-12),
 'RegLinearRTO':lambda: M.RegularizedLinearRTO(lin_post(RegularizedGaussian(np.zeros(n),1.0,constraint="nonnegativity",name='x'))),
 'RegLinearRTO_fixedstep':lambda: M.RegularizedLinearRTO(lin_post(RegularizedGaussian(np.zeros(n),1.0,constraint="nonnegativity",name='x')),stepsize=0.01),
 'UGLA':lambda: M.UGLA(lin_post(LMRF(0,0.5,geometry=n,name='x'))),
 'Direct':lambda: M.Direct(Gaussian(np.zeros(n),1.0)),
}
d=tempfile.mkdtemp()
for name,f in mk.items():
  for W in (0,7):
    res=[]
    with contextlib.redirect_stdout(io.StringIO()):
        np.random.seed(11); s=f(); 
        if W: s.warmup(W)
        st_mid=None
        s.sample(5); rng_mid=np.random.get_state(); s.save_checkpoint(os.path.join(d,'c.pkl')); s.sample(6)
        ref=s.get_samples().samples.copy()
        np.random.seed(999); s2=f(); s2.load_checkpoint(os.path.join(d,'c.pkl')); np.random.set_state(rng_mid); s2.sample(6)
        got=s2.get_samples().samples
    tail=ref[:,-6:]
    print(f"{name:24s} W={W} bitwise={np.array_equal(tail,got)} maxdiff={np.max(np.abs(tail-got)):.3e}")
