import numpy as np, cuqi, warnings
warnings.filterwarnings("ignore")
from cuqi.distribution import Gaussian, Gamma, JointDistribution
from cuqi.experimental.mcmc import MH, HybridGibbs, Conjugate
np.random.seed(1)
A=np.random.randn(4,3)
s=Gamma(1,1e-2,name='s')
x=Gaussian(np.zeros(3),1.0,name='x')
y=Gaussian(lambda x: A@x, lambda s: 1/s, name="y", geometry=4)
yobs=np.random.randn(4)
post=JointDistribution(y,x,s)(y=yobs)
print(post)
g=HybridGibbs(post,{'x':MH(scale=0.5),'s':Conjugate()})
for k in range(5):
    g.step()
    mh=g.samplers['x']
    cached=mh.current_target_logd
    true=mh.target.logd(mh.current_point)
    print(k, cached, true, 'STALE' if abs(cached-true)>1e-9 else 'ok', g.current_samples['s'])
