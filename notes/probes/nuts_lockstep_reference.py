# throw-away: lock-step reference NUTS vs cuqi.experimental.mcmc.NUTS under a recorded tape
import numpy as np, cuqi, warnings
warnings.filterwarnings("ignore")
import cuqi.experimental.mcmc as M
from cuqi.distribution import UserDefinedDistribution
evals=[]
def ref_logp(x): return -0.5*float(x@x)-0.1*float(np.sum(x**4))
def ref_grad(x): return -x-0.4*x**3
def lp(x): evals.append(np.array(x,float).copy()); return ref_logp(x)
tgt=UserDefinedDistribution(dim=2, logpdf_func=lp, gradient_func=ref_grad)
draws=[]
o_rand,o_sn,o_exp=np.random.rand,np.random.standard_normal,np.random.exponential
def rand(*a):
    v=o_rand(*a); draws.append(('rand',v)); return v
def sn(size=None):
    v=o_sn(size=size); draws.append(('sn',v.copy())); return v
def ex(scale=1.0,size=None):
    v=o_exp(scale,size=size); draws.append(('exp',v.copy())); return v
np.random.rand,np.random.standard_normal,np.random.exponential=rand,sn,ex

def leap(x,r,g,e):
    r=r+0.5*e*g; x=x+e*r; g2=ref_grad(x); r=r+0.5*e*g2; return x,r,ref_logp(x),g2
class Ref:
    def __init__(s,us): s.us=list(us); s.leaves=[]
    def u(s): return s.us.pop(0)
    def build(s,x,r,g,H0,logu,v,j,e):
        if j==0:
            x1,r1,l1,g1=leap(x,r,g,v*e); s.leaves.append(x1)
            H=l1-0.5*r1@r1
            n=int(logu<=H); st=int(logu<1000+H)
            a=1.0 if H-H0>0 else np.exp(H-H0)
            return x1,r1,g1,x1,r1,g1,x1,l1,g1,n,st,a,1
        xm,rm,gm,xp,rp,gp,xc,lc,gc,n,st,a,na=s.build(x,r,g,H0,logu,v,j-1,e)
        if st==1:
            if v==-1:
                xm,rm,gm,_,_,_,x2,l2,g2,n2,s2,a2,na2=s.build(xm,rm,gm,H0,logu,v,j-1,e)
            else:
                _,_,_,xp,rp,gp,x2,l2,g2,n2,s2,a2,na2=s.build(xp,rp,gp,H0,logu,v,j-1,e)
            if s.u() <= n2/max(1,n+n2): xc,lc,gc=x2,l2,g2
            a+=a2; na+=na2
            d=xp-xm; st=s2*int(d@rm>=0)*int(d@rp>=0); n+=n2
        return xm,rm,gm,xp,rp,gp,xc,lc,gc,n,st,a,na
    def step(s,x0,r0,e_draw,eps,maxd):
        l0=ref_logp(x0); g0=ref_grad(x0); H0=l0-0.5*r0@r0; logu=H0-e_draw
        xm=xp=x0; rm=rp=r0; gm=gp=g0; cur=x0; j,st,n=0,1,1
        while st==1 and j<=maxd:
            v=int(2*(s.u()<0.5)-1)
            if v==-1: xm,rm,gm,_,_,_,xc,lc,gc,n2,s2,a,na=s.build(xm,rm,gm,H0,logu,v,j,eps)
            else: _,_,_,xp,rp,gp,xc,lc,gc,n2,s2,a,na=s.build(xp,rp,gp,H0,logu,v,j,eps)
            if s2==1 and s.u()<=min(1,n2/n) and np.isfinite(lc): cur=xc
            n+=n2; d=xp-xm; st=s2*int(d@rm>=0)*int(d@rp>=0); j+=1
        return cur,a/na
np.random.seed(4)
smp=M.NUTS(tgt,max_depth=4,step_size=0.45,initial_point=np.array([0.3,-0.2]))
smp.initialize(); smp._pre_sample()
ok=0; tot=0; leaves_ok=0
for k in range(300):
    draws.clear(); evals.clear()
    x0=np.array(smp.current_point,float).copy(); eps=smp.get_state()['state']['_epsilon']
    smp.step()
    assert draws[0][0]=='sn' and draws[1][0]=='exp'
    us=[d[1] for d in draws[2:]]; assert all(d[0]=='rand' for d in draws[2:])
    ref=Ref(us); cur,astat=ref.step(x0,draws[0][1],float(draws[1][1][0]),eps,smp.max_depth)
    tot+=1
    ok+= (len(ref.us)==0) and np.allclose(cur,smp.current_point,rtol=1e-12,atol=0) and abs(astat-smp._current_alpha_ratio)<1e-12
    leaves_ok+= len(evals)==len(ref.leaves) and all(np.allclose(a,b,rtol=1e-12,atol=1e-15) for a,b in zip(evals,ref.leaves))
print("lockstep transitions ok:",ok,"/",tot," eval-trace ok:",leaves_ok,"/",tot)
