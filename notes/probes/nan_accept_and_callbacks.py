import numpy as np, cuqi, warnings, io, contextlib
warnings.filterwarnings("ignore")
from cuqi.distribution import Gaussian, Gamma, JointDistribution, UserDefinedDistribution, Posterior
# 1. NaN acceptance in legacy MH
def logp(x):
    return np.nan if x[0]>1.5 else -0.5*float(x@x)
t=UserDefinedDistribution(dim=2, logpdf_func=logp)
np.random.seed(0)
with contextlib.redirect_stdout(io.StringIO()):
    s=cuqi.sampler.MH(t, scale=1.0, x0=np.zeros(2)).sample(200)
print("legacy MH: #samples with x0>0.5 (NaN region):", int((s.samples[0]>1.5).sum()))
np.random.seed(0)
m=cuqi.experimental.mcmc.MH(t, scale=1.0, initial_point=np.zeros(2))
import cuqi.experimental.mcmc._sampler as S
S.tqdm=lambda it,*a,**k: type('P',(),{'__iter__':lambda s: iter(it),'set_postfix_str':lambda s,x:None})()
m.sample(200)
print("exp MH in NaN region:", int((m.get_samples().samples[0]>1.5).sum()))
# PCN with NaN likelihood
A=np.eye(2)
x=Gaussian(np.zeros(2),1.0,name='x')
def fwd(x):
    return x*np.nan if x[0]>1.5 else x
model=cuqi.model.Model(fwd,2,2)
y=Gaussian(model(x),1.0,name='y')
post=Posterior(y.to_likelihood(np.zeros(2)),x)
np.random.seed(0)
p=cuqi.experimental.mcmc.PCN(post,scale=0.9,initial_point=np.zeros(2))
p.sample(200)
print("exp PCN in NaN region:", int((p.get_samples().samples[0]>1.5).sum()))
np.random.seed(0)
with contextlib.redirect_stdout(io.StringIO()):
    s=cuqi.sampler.pCN(post,scale=0.9,x0=np.zeros(2)).sample(200)
print("legacy pCN in NaN region:", int((s.samples[0]>1.5).sum()))
# 3. callbacks in legacy sample_adapt
for cls,kw in [(cuqi.sampler.MH,dict(scale=0.5)),(cuqi.sampler.CWMH,dict(scale=0.5)),(cuqi.sampler.pCN,dict(scale=0.5))]:
    calls=[]
    tgt = post if cls is cuqi.sampler.pCN else Gaussian(np.zeros(2),1.0)
    with contextlib.redirect_stdout(io.StringIO()):
        smp=cls(tgt, callback=lambda s,i: calls.append(i), **kw)
        smp.sample_adapt(20,10)
    print(cls.__name__,"sample_adapt callbacks:",len(calls), calls[:3], calls[-1:] )
