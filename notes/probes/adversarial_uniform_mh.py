# throw-away: adversarial-uniform oracle for experimental MH / MALA / PCN
import numpy as np, cuqi, warnings, random
warnings.filterwarnings("ignore")
import cuqi.experimental.mcmc as M
from cuqi.distribution import UserDefinedDistribution, Gaussian, Posterior
from scipy.stats import multivariate_normal as mvn
sched=random.Random(7)
dim=3
def ref_logp(x): return -0.5*float(x@x)-0.1*float(np.sum(x**4))+0.3*float(x[0]*x[1])
def ref_grad(x):
    g=-x-0.4*x**3; g=g.copy(); g[0]+=0.3*x[1]; g[1]+=0.3*x[0]; return g
ev=[]
tgt=UserDefinedDistribution(dim=dim, logpdf_func=lambda x:(ev.append(np.array(x,float).copy()), ref_logp(x))[1], gradient_func=ref_grad)
draws=[]; policy=[None]
o_rand,o_randn,o_normal=np.random.rand,np.random.randn,np.random.normal
def rand(*a):
    if not a and policy[0]: v=policy[0]()
    else: v=o_rand(*a)
    draws.append(('rand',v)); return v
def randn(*a):
    v=o_randn(*a); draws.append(('randn',v.copy())); return v
def normal(*a,**k):
    v=o_normal(*a,**k); draws.append(('normal',np.array(v).copy(),a)); return v
np.random.rand,np.random.randn,np.random.normal=rand,randn,normal
def choose(alpha):
    r=sched.random()
    if r<.4: return alpha*(1-1e-6), True
    if r<.8 and alpha<1: return min(alpha*(1+1e-6),1-1e-16), False
    u=sched.random(); return u, u<alpha
def run(kind, pmean):
    np.random.seed(5); bad=0; tot=0
    if kind=='MH': s=M.MH(tgt,scale=0.8,initial_point=np.zeros(dim))
    if kind=='MALA': s=M.MALA(tgt,scale=0.3,initial_point=np.zeros(dim))
    if kind=='PCN':
        A=np.random.RandomState(1).randn(4,dim); y=np.random.RandomState(2).randn(4)
        fwd=lambda x: np.tanh(A@x)
        prior=Gaussian(pmean*np.ones(dim), 0.7, name='x')
        lik=Gaussian(cuqi.model.Model(fwd,4,dim)(prior), 0.5, name='y').to_likelihood(y)
        post=Posterior(lik,prior); s=M.PCN(post,scale=0.4,initial_point=np.zeros(dim))
        C=0.7*np.eye(dim); m=pmean*np.ones(dim)
        loglik=lambda x: float(-0.5*np.sum((y-fwd(x))**2)/0.5)
        logprior=lambda x: float(mvn.logpdf(x,m,C))
    s.initialize()
    for k in range(400):
        x=np.array(s.current_point,float).copy(); draws.clear(); ev.clear()
        exp=[None]
        def pol():
            if kind=='MH':
                xs=ev[-1]; la=min(0.0, ref_logp(xs)-ref_logp(x))
            if kind=='MALA':
                xi=[d for d in draws if d[0]=='normal'][-1][1].ravel(); xs=ev[-1]
                g=ref_grad(x); drift=xs-x-xi; c=float(drift@g/(g@g)); eps=float(np.var([0])+s.scale)
                q=lambda a,b: -0.5*np.sum((a-(b+c*ref_grad(b)))**2)/eps
                la=min(0.0, ref_logp(xs)-ref_logp(x)+q(x,xs)-q(xs,x))
            if kind=='PCN':
                xi=[d for d in draws if d[0]=='randn'][-1][1].ravel()
                # sampler's prior.sample = mean + sqrtcov*e ; reconstruct xi_full
                xif=m+np.sqrt(0.7)*xi
                xs=np.sqrt(1-s.scale**2)*x+s.scale*xif   # family fit: a,b
                a,b=np.sqrt(1-s.scale**2),s.scale
                q=lambda to,fr: float(mvn.logpdf(to,a*fr+b*m,b*b*C))
                la=min(0.0, loglik(xs)+logprior(xs)+q(x,xs)-loglik(x)-logprior(x)-q(xs,x))
                exp.append(xs)
            u,acc=choose(np.exp(la)); exp[0]=acc; return u
        policy[0]=pol; s.step(); policy[0]=None
        moved=not np.array_equal(np.array(s.current_point,float),x)
        tot+=1; bad+= (moved!=exp[0])
    return bad,tot
print("MH",run('MH',0)); print("MALA",run('MALA',0)); print("PCN m=0",run('PCN',0.0)); print("PCN m=1",run('PCN',1.0))
