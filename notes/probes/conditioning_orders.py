import numpy as np, cuqi, warnings, itertools
warnings.filterwarnings("ignore")
from cuqi.distribution import Gaussian, Gamma, JointDistribution
rs=np.random.RandomState(3); A=rs.randn(5,3); yobs=rs.randn(5)
def build():
    s=Gamma(1,1e-2,name='s'); d=Gamma(2,1e-1,name='d')
    x=Gaussian(np.zeros(3),lambda d:1/d,name='x')
    y=Gaussian(cuqi.model.LinearModel(A)(x), lambda s:1/s, name='y')
    return JointDistribution(y,x,s,d)
vals={'y':yobs,'x':np.array([.1,.2,-.3]),'s':np.array([2.0]),'d':np.array([0.7])}
T=build(); full=float(np.ravel(T.logd(**vals))[0])
res={}
for order in itertools.permutations(['y','x','s','d']):
    for k in range(1,5):
        o=build(); path=[]
        try:
            for n in order[:k]:
                path.append(type(o).__name__)
                o=o(**{n:vals[n]})
            free=[n for n in ['y','x','s','d'] if n not in order[:k]]
            v=float(np.ravel(o.logd(**{n:vals[n] for n in free}) if free else o.logd())[0])
            ok = abs(v-full)<=1e-9*(1+abs(full))
            res.setdefault('ok' if ok else 'MISMATCH',[]).append((order[:k],type(o).__name__,v))
        except Exception as e:
            res.setdefault('EXC '+type(e).__name__+': '+str(e)[:70],[]).append((order[:k],path))
for k,v in res.items():
    print(k,len(v))
    if k!='ok':
        for it in v[:6]: print("   ",it)
print(full)
