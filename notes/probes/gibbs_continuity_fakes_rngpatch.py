import numpy as np, cuqi, warnings, io, contextlib
warnings.filterwarnings("ignore")
import cuqi.experimental.mcmc as M
import cuqi.experimental.mcmc._sampler as S, cuqi.experimental.mcmc._gibbs as G
class P:
    def __init__(s,it): s.it=it
    def __iter__(s): return iter(s.it)
    def set_postfix_str(s,x): pass
S.tqdm=lambda it,*a,**k: P(it); G.tqdm=lambda it,*a,**k: P(it)
from cuqi.distribution import Gaussian, Gamma, JointDistribution
rs=np.random.RandomState(3); A=rs.randn(5,3); yobs=rs.randn(5)
def joint():
    s=Gamma(1,1e-2,name='s'); d=Gamma(1,1e-2,name='d')
    x=Gaussian(np.zeros(3),lambda d:1/d,name='x')
    y=Gaussian(cuqi.model.LinearModel(A)(x), lambda s:1/s, name='y')
    return JointDistribution(y,x,s,d)(y=yobs)
# fake sampler
log=[]
class Fake(M.Sampler):
    def __init__(self, tag, **kw): super().__init__(**kw); self.tag=tag
    def _initialize(self): pass
    def validate_target(self): pass
    def tune(self,a,b): pass
    def step(self):
        log.append((self.tag, type(self.target).__name__, np.array(self.current_point).copy()))
        self.current_point = np.atleast_1d(self.current_point)+1.0
        return 1
def run(parts):
    np.random.seed(5)
    g=M.HybridGibbs(joint(),{'x':M.LinearRTO(maxit=50,tol=1e-12),'s':M.Conjugate(),'d':M.MH(scale=0.4)})
    for p in parts: g.sample(p)
    return g.get_samples()
a=run([9]); b=run([4,5])
print({k:np.array_equal(a[k].samples,b[k].samples) for k in a})
g=M.HybridGibbs(joint(),{'x':Fake('x',initial_point=np.zeros(3)),'s':Fake('s',initial_point=np.ones(1)),'d':Fake('d',initial_point=np.ones(1))},{'x':2,'s':1,'d':3})
g.sample(2)
for l in log: print(l[0],l[1],l[2])
print(g.get_samples()['x'].samples)
# patched rng honoured?
calls=[]
orig=np.random.rand
np.random.rand=lambda *a: (calls.append(a), orig(*a))[1]
m=M.MH(cuqi.distribution.Gaussian(np.zeros(2),1.0),scale=0.5); m.sample(3); np.random.rand=orig
print("patched rand calls:",len(calls))
