# throw-away: gibbs engine oracles 2,3,6 and F1 classification
import numpy as np, cuqi, warnings
warnings.filterwarnings("ignore")
import cuqi.experimental.mcmc as M
import cuqi.experimental.mcmc._gibbs as G
G.tqdm=lambda it,*a,**k: it
from cuqi.distribution import Gaussian, Gamma, JointDistribution
rs=np.random.RandomState(3); A=rs.randn(5,3); yobs=rs.randn(5)
def joint():
    s=Gamma(1,1e-2,name='s')
    x=Gaussian(np.zeros(3),1.0,name='x')
    y=Gaussian(cuqi.model.LinearModel(A)(x), lambda s:1/s, name='y')
    return JointDistribution(y,x,s)(y=yobs)
np.random.seed(2)
g=M.HybridGibbs(joint(),{'x':M.MH(scale=0.6,initial_point=np.zeros(3)),'s':M.Conjugate()},{'x':2,'s':1})
twin=joint()
cur={k:np.array(v,float).reshape(-1).copy() for k,v in g.current_samples.items()}
stats=dict(fresh_ok=0,fresh_bad=0,start_ok=0,replay_ok=0,replay_bad=0,explained_by_stale=0,unexplained=0)
pre={}
def wrap(name,smp):
    orig=smp.step; cnt=[0]
    def step():
        if cnt[0]==0:
            # block update begins
            others={k:v for k,v in cur.items() if k!=name}
            T=twin(**others)
            v1=cur[name]+0.1; v2=cur[name]+0.37
            a=float(np.ravel(smp.target.logd(v1))[0]-np.ravel(smp.target.logd(v2))[0]); b=float(np.ravel(T.logd(v1))[0]-np.ravel(T.logd(v2))[0])
            stats['fresh_ok' if abs(a-b)<=1e-9*(1+abs(a)+abs(b)) else 'fresh_bad']+=1
            stats['start_ok']+= np.array_equal(np.array(smp.current_point,float).reshape(-1),cur[name])
            pre[name]=dict(rng=np.random.get_state(),T=T,state=smp.get_state()['state'].copy())
        cnt[0]+=1
        r=orig()
        if cnt[0]==g.num_sampling_steps[name]:
            cnt[0]=0
            result=np.array(smp.current_point,float).reshape(-1).copy()
            post_rng=np.random.get_state()
            if isinstance(smp,M.MH):
                def replay(stale):
                    np.random.set_state(pre[name]['rng'])
                    f=M.MH(pre[name]['T'],scale=pre[name]['state']['scale'],initial_point=cur[name].copy()); f.initialize()
                    f._scale_temp=pre[name]['state']['_scale_temp']
                    if stale: f.current_target_logd=pre[name]['state']['current_target_logd']
                    for _ in range(g.num_sampling_steps[name]): f.step()
                    return np.array(f.current_point,float).reshape(-1)
                if np.array_equal(replay(False),result): stats['replay_ok']+=1
                else:
                    stats['replay_bad']+=1
                    stats['explained_by_stale' if np.array_equal(replay(True),result) else 'unexplained']+=1
                np.random.set_state(post_rng)
            cur[name]=result
        return r
    smp.step=step
for n,sm in g.samplers.items(): wrap(n,sm)
g.sample(300)
S=g.get_samples()
store_ok=all(np.array_equal(S[k].samples[:,-1],cur[k]) for k in cur)
print(stats,"store_ok",store_ok)
