import numpy as np, cuqi, warnings, time
warnings.filterwarnings("ignore")
from cuqi.distribution import Gaussian, Gamma, GMRF, LMRF, Lognormal, JointDistribution, Posterior
from cuqi.implicitprior import RegularizedGaussian
rs=np.random.RandomState(3); A=rs.randn(5,3); yobs=rs.randn(5)
def build():
    s=Gamma(1,1e-2,name='s'); d=Gamma(2,1e-1,name='d')
    x=Gaussian(np.zeros(3),lambda d:1/d,name='x')
    y=Gaussian(cuqi.model.LinearModel(A)(x), lambda s:1/s, name='y')
    return JointDistribution(y,x,s,d)
vals={'y':yobs,'x':np.array([.1,.2,-.3]),'s':np.array([2.0]),'d':np.array([0.7])}
def sig(o):
    names=o.get_parameter_names()
    return (tuple(names), float(np.ravel(o.logd(**{n:vals[n] for n in names}))[0]))
J=build(); T=build()
t=time.time()
P=J(y=yobs); TP=T(y=yobs)
for i in range(3000):
    c=P(x=vals['x']+i*1e-3, s=vals['s']); c.logd(vals['d'])
print("3000 reconditionings s:",round(time.time()-t,2),"unchanged:",sig(P)==sig(TP), sig(J)==sig(T))
# chain depth of _original_density when re-conditioning a copy repeatedly
c=P
for i in range(300): c=c()
import sys
print("name via 300-deep copy chain:", c.get_parameter_names(), sys.getrecursionlimit())
# Lognormal aliasing
ln=Lognormal(lambda z: z*np.ones(2), 0.5*np.eye(2), name="w")
a=ln(z=1.0); b=ln(z=2.0)
pa=np.array([1.2,0.7])
v1=a.logd(pa); v2=b.logd(pa); v3=a.logd(pa)
print("lognormal a before/after b:",v1,v3,"b:",v2, "shared inner:", a._Gaussian is b._Gaussian)
# RegularizedGaussian
rg=RegularizedGaussian(np.zeros(3), lambda d:1/d, constraint="nonnegativity", name='x')
r1=rg(d=1.0); r2=rg(d=4.0)
print("reg gaussian sqrtprec diag:", r1.sqrtprec[0,0], r2.sqrtprec[0,0], r1.gaussian is r2.gaussian, rg.get_conditioning_variables())
# geometry shared by two distributions
geom=cuqi.geometry.Continuous1D(3)
g1=Gaussian(np.zeros(3),1.0,geometry=geom,name='a'); g2=Gaussian(np.zeros(3),1.0,geometry=geom,name='b')
print(g1.geometry.variables[:1], g2.geometry.variables[:1], g1.geometry.variables[:1])
