import numpy as np, scipy.linalg.interpolative as I
from scipy.sparse.linalg import aslinearoperator
A=np.random.RandomState(0).randn(7,4)
op=aslinearoperator(A)
print([I.estimate_spectral_norm(op) for _ in range(3)], np.linalg.norm(A,2))
I.seed('default'); a=I.estimate_spectral_norm(op)
I.seed('default'); b=I.estimate_spectral_norm(op)
print(a==b, a, b)
np.random.seed(0); s0=np.random.get_state()[1][:3].copy(); I.estimate_spectral_norm(op); print((np.random.get_state()[1][:3]==s0).all(), np.random.get_state()[2])
