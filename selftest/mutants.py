"""Sensitivity self-test: small realistic edits of CUQIpy, each naming the property whose check must
report it.  Applied to a scratch worktree of /repo HEAD under /tmp (removed afterwards); the checks
import it through PYTHONPATH.  Run by bin/mutation_selftest - never by the registered checks.

Each mutant: (id, property, file, old, new [, runs]).  `old` must occur exactly once in the file.
"""

M = []


def m(mid, prop, file, old, new, runs=None):
    M.append({"id": mid, "prop": prop, "file": file, "old": old, "new": new, "runs": runs})


E = "cuqi/experimental/mcmc/"
L = "cuqi/sampler/"

# ---------------------------------------------------------------- C14 (chain)
# (dropping a pure *tuning* key - MH/CWMH '_scale_temp', PCN 'lambd' - from the state keys only matters when warm-up is
#  resumed after a restore, which C14 does not quantify over: not C14 mutants)
m("c14_ula_drop_grad_key", "C14", E + "_langevin_algorithm.py",
  "_STATE_KEYS = Sampler._STATE_KEYS.union({'current_target_logd', 'scale', 'current_target_grad'})",
  "_STATE_KEYS = Sampler._STATE_KEYS.union({'current_target_logd', 'scale'})")
m("c14_nuts_drop_epsilon_bar_key", "C14", E + "_hmc.py",
  "_STATE_KEYS = Sampler._STATE_KEYS.union({'_epsilon', '_epsilon_bar',",
  "_STATE_KEYS = Sampler._STATE_KEYS.union({'_epsilon',")
m("c14_set_state_skips_scale", "C14", E + "_sampler.py",
  "            if key in self._STATE_KEYS:\n                setattr(self, key, value)\n            else:\n                raise ValueError(f\"Key {key} not recognized in state dictionary",
  "            if key == 'scale':\n                continue\n            if key in self._STATE_KEYS:\n                setattr(self, key, value)\n            else:\n                raise ValueError(f\"Key {key} not recognized in state dictionary")
m("c14_cgls_no_copy_of_start", "C14", "cuqi/solver/_solver.py",
  "        # initial state\n        x = self.x0.copy()\n        if self.explicitA:\n            r = self.b - (self.A @ x)",
  "        # initial state\n        x = self.x0\n        if self.explicitA:\n            r = self.b - (self.A @ x)")
m("c14_callback_index_off_by_one", "C14", E + "_sampler.py",
  "            # Call callback function if specified            \n            self._call_callback(self.current_point, len(self._samples)-1)",
  "            # Call callback function if specified            \n            self._call_callback(self.current_point, len(self._samples))")
m("c14_warmup_no_callback", "C14", E + "_sampler.py",
  "            # Call callback function if specified\n            self._call_callback(self.current_point, len(self._samples)-1)\n\n        return self",
  "        return self")
m("c14_legacy_burnin_slice", "C14", L + "_pcn.py",
  "        samples = samples[:, Nb:]\n        loglike_eval = loglike_eval[Nb:]\n        accave = acc[Nb:].mean()   \n        print('\\nAverage acceptance rate:', accave, '\\n')",
  "        samples = samples[:, Nb+1:] if Nb > 0 else samples\n        loglike_eval = loglike_eval[Nb:]\n        accave = acc[Nb:].mean()   \n        print('\\nAverage acceptance rate:', accave, '\\n')")
m("c14_legacy_gibbs_initial_points_col0", "C14", L + "_gibbs.py",
  "                initial_points[par_name] = self.samples[par_name][:, -1]",
  "                initial_points[par_name] = self.samples[par_name][:, 0]")
# (removing the reset of the history keys in reinitialize() is an equivalent mutant: initialize() re-creates them)
m("c09_hybridgibbs_store_before_step", "C09", E + "_gibbs.py",
  "        for _ in tqdm(range(Ns), \"Sample: \"):\n\n            self.step()\n\n            self._store_samples()",
  "        for _ in tqdm(range(Ns), \"Sample: \"):\n\n            self._store_samples()\n\n            self.step()")
m("c14_samples_list_aliases_state", "C14", E + "_rto.py",
  "        sim = CGLS(self.M, y, self.current_point, self.maxit, self.tol)            \n        self.current_point, _ = sim.solve()",
  "        sim = CGLS(self.M, y, self.current_point, self.maxit, self.tol)            \n        self.current_point[:] = sim.solve()[0]")
m("c14_nuts_reinitialize_resets_max_depth", "C14", E + "_hmc.py",
  "        super().reinitialize()\n        self.max_depth = max_depth",
  "        super().reinitialize()")
m("c14_legacy_mh_adapt_no_callback", "C14", L + "_mh.py",
  "            self._print_progress(s+2,Ns) #s+2 is the sample number, s+1 is index assuming x0 is the first sample\n            self._call_callback(samples[:, s+1], s+1)\n\n        # remove burn-in\n        samples = samples[:, Nb:]\n        target_eval = target_eval[Nb:]\n        accave = acc[Nb:].mean()   \n        print('\\nAverage acceptance rate:', accave, 'MCMC scale:', self.scale, '\\n')",
  "            self._print_progress(s+2,Ns) #s+2 is the sample number, s+1 is index assuming x0 is the first sample\n\n        # remove burn-in\n        samples = samples[:, Nb:]\n        target_eval = target_eval[Nb:]\n        accave = acc[Nb:].mean()   \n        print('\\nAverage acceptance rate:', accave, 'MCMC scale:', self.scale, '\\n')")

# ---------------------------------------------------------------- C02 (mhkernel)
m("c02_mh_ratio_sign", "C02", E + "_mh.py",
  "ratio = target_eval_star - self.current_target_logd # proposal is symmetric",
  "ratio = self.current_target_logd - target_eval_star # proposal is symmetric")
m("c02_mh_alpha_doubled", "C02", E + "_mh.py",
  "        alpha = min(0, ratio)\n\n        # accept/reject\n        u_theta = np.log(np.random.rand())\n        acc = 0",
  "        alpha = min(0, 2*ratio)\n\n        # accept/reject\n        u_theta = np.log(np.random.rand())\n        acc = 0")
m("c02_mala_proposal_eps_one_direction", "C02", E + "_langevin_algorithm.py",
  "        log_prop_ratio = self._log_proposal(self.current_point, x_star, target_grad_star) \\\n            - self._log_proposal(x_star, self.current_point,  self.current_target_grad)",
  "        log_prop_ratio = 2*self._log_proposal(self.current_point, x_star, target_grad_star) \\\n            - self._log_proposal(x_star, self.current_point,  self.current_target_grad)")
m("c02_pcn_no_sqrt", "C02", E + "_pcn.py",
  "x_star = m + np.sqrt(1-self.scale**2)*(self.current_point - m) + self.scale*(xi - m)",
  "x_star = m + (1-self.scale**2)*(self.current_point - m) + self.scale*(xi - m)")
m("c02_mh_drop_nan_guard", "C02", E + "_mh.py",
  "        if (u_theta <= alpha) and \\\n           (not np.isnan(target_eval_star)) and \\\n           (not np.isinf(target_eval_star)):",
  "        if (u_theta <= alpha):")
m("c02_mh_cache_on_reject", "C02", E + "_mh.py",
  "            acc = 1\n        \n        return acc",
  "            acc = 1\n        else:\n            self.current_target_logd = target_eval_star\n        \n        return acc")
m("c02_cwmh_compare_against_step_start", "C02", E + "_cwmh.py",
  "            alpha = min(0, target_eval_star - target_eval_t)",
  "            alpha = min(0, target_eval_star - self.current_target_logd)")
m("c02_legacy_mala_grad_not_updated", "C02", L + "_langevin_algorithm.py",
  "(np.isinf(logpi_eval_star) == False):\n            return x_star, logpi_eval_star, g_logpi_star, 1",
  "(np.isinf(logpi_eval_star) == False):\n            return x_star, logpi_eval_star, g_target_eval_t, 1")
m("c02_legacy_pcn_ratio_uses_prior", "C02", L + "_pcn.py",
  "        ratio = loglike_eval_star - loglike_eval_t  # proposal is symmetric",
  "        ratio = loglike_eval_star - loglike_eval_t + self.prior.logd(x_star) - self.prior.logd(x_t) # proposal is symmetric")
m("c02_mh_tune_breaks_cache", "C02", E + "_mh.py",
  "        # update parameters\n        self.scale = min(self._scale_temp, 1)",
  "        # update parameters\n        self.scale = min(self._scale_temp, 1)\n        self.current_target_logd = self.current_target_logd*1.0000001")

# ---------------------------------------------------------------- C08 (nuts)
m("c08_leapfrog_full_first_half_step", "C08", E + "_hmc.py",
  "        r_new = r_old + 0.5*epsilon*grad_old     # half-step",
  "        r_new = r_old + epsilon*grad_old     # half-step")
m("c08_merge_weight", "C08", E + "_hmc.py",
  "                alpha2 = n_2prime / max(1, (n_prime + n_2prime))",
  "                alpha2 = n_2prime / max(1, n_prime)")
m("c08_top_weight_inverted", "C08", E + "_hmc.py",
  "            alpha2 = min(1, (n_prime/n)) #min(0, np.log(n_p) - np.log(n))",
  "            alpha2 = min(1, (n/max(1, n_prime))) #min(0, np.log(n_p) - np.log(n))")
m("c08_slice_test_strict", "C08", E + "_hmc.py",
  "            n_prime = int(log_u <= Ham_prime)     # if particle is in the slice",
  "            n_prime = int(log_u <= Ham_prime - 0.5)     # if particle is in the slice")
m("c08_uturn_only_minus", "C08", E + "_hmc.py",
  "                s_prime = s_2prime *\\\n                    int((dpoints@r_minus.T)>=0) * int((dpoints@r_plus.T)>=0)",
  "                s_prime = s_2prime *\\\n                    int((dpoints@r_minus.T)>=0)")
m("c08_depth_off_by_one", "C08", E + "_hmc.py",
  "        while (s == 1) and (j <= self.max_depth):",
  "        while (s == 1) and (j < self.max_depth):")
m("c08_grad_cache_not_updated", "C08", E + "_hmc.py",
  "                self.current_target_grad = np.copy(grad_prime)",
  "                pass")
m("c08_alpha_not_accumulated", "C08", E + "_hmc.py",
  "                alpha_prime += alpha_2prime",
  "                alpha_prime = alpha_2prime")
m("c08_legacy_merge_weight", "C08", L + "_hmc.py",
  "                alpha2 = n_2prime / max(1, (n_prime + n_2prime))",
  "                alpha2 = n_2prime / max(1, n_prime)")
m("c08_legacy_grad_stale_after_accept", "C08", L + "_hmc.py",
  "                    grad = np.copy(grad_prime)",
  "                    pass")
m("c08_drop_isnan_guard", "C08", E + "_hmc.py",
  "                (not np.isnan(logd_prime)) and \\\n                (not np.isinf(logd_prime)):",
  "                True:")

# ---------------------------------------------------------------- C09 (gibbs)
m("c09_condition_on_sweep_start_values", "C09", E + "_gibbs.py",
  "        # Sample from each conditional distribution\n        for par_name in self.par_names:\n\n            # Set target for current parameter\n            self._set_target(par_name)",
  "        # Sample from each conditional distribution\n        if not hasattr(self, '_frozen') or True:\n            self._frozen = dict(self.current_samples)\n        for par_name in self.par_names:\n\n            # Set target for current parameter\n            self.samplers[par_name].target = self.target(**{k: v for k, v in self._frozen.items() if k != par_name})")
m("c09_skip_set_target_last_block", "C09", E + "_gibbs.py",
  "            # Set target for current parameter\n            self._set_target(par_name)",
  "            # Set target for current parameter\n            if par_name != self.par_names[-1] or not hasattr(self, '_did_first'):\n                self._set_target(par_name)\n            self._did_first = True")
m("c09_num_sampling_steps_ignored", "C09", E + "_gibbs.py",
  "            for _ in range(self.num_sampling_steps[par_name]):",
  "            for _ in range(1):")
m("c09_current_sample_not_written_back", "C09", E + "_gibbs.py",
  "            # Extract samples (Ensure even 1-dimensional samples are 1D arrays)\n            if isinstance(sampler.current_point, np.ndarray):",
  "            # Extract samples (Ensure even 1-dimensional samples are 1D arrays)\n            if par_name == self.par_names[0] and len(self.samples[par_name]) % 3 == 2:\n                continue\n            if isinstance(sampler.current_point, np.ndarray):")
m("c09_legacy_other_params_stale", "C09", L + "_gibbs.py",
  "        # Sample from each conditional distribution\n        for par_name in par_names:\n\n            # Dict of all other parameters to condition on\n            other_params = {par_name_: current_samples[par_name_] for par_name_ in par_names if par_name_ != par_name}",
  "        # Sample from each conditional distribution\n        start = dict(current_samples)\n        for par_name in par_names:\n\n            # Dict of all other parameters to condition on\n            other_params = {par_name_: start[par_name_] for par_name_ in par_names if par_name_ != par_name}")
m("c09_stale_cache_reintroduced", "C09", E + "_gibbs.py",
  "                if hasattr(sampler, 'current_target_logd'):\n                    sampler.current_target_logd = sampler.target.logd(sampler.current_point)",
  "                if False:\n                    sampler.current_target_logd = sampler.target.logd(sampler.current_point)")
m("c09_store_previous_sweep", "C09", E + "_gibbs.py",
  "        for par_name in self.par_names:\n            self.samples[par_name].append(self.current_samples[par_name])",
  "        prev = getattr(self, '_prev_store', self.current_samples)\n        for par_name in self.par_names:\n            self.samples[par_name].append(prev[par_name])\n        self._prev_store = dict(self.current_samples)")

# ---------------------------------------------------------------- C11 / C01 (objhist)
m("c11_joint_condition_shares_density_list", "C11", "cuqi/distribution/_joint_distribution.py",
  "        new_joint._densities = self._densities[:] # Shallow copy of densities",
  "        new_joint._densities = self._densities # Shallow copy of densities")
m("c11_constants_added_to_original", "C11", "cuqi/distribution/_joint_distribution.py",
  "            new_joint._densities[i] = density(**cond_kwargs)",
  "            new_joint._densities[i] = density(**cond_kwargs) if len(cond_kwargs) > 0 else density")
m("c11_likelihood_condition_no_copy", "C11", "cuqi/likelihood/_likelihood.py",
  "        new_likelihood = copy(self)", "        new_likelihood = self")
m("c11_model_forward_renames_self", "C11", "cuqi/model/_model.py",
  "            new_model = copy(self)", "            new_model = self")
m("c01_posterior_branch_drops_constants", "C01", "cuqi/distribution/_joint_distribution.py",
  "            return self._add_constants_to_density(Posterior(self._likelihoods[0], self._distributions[0], name=self._distributions[0].name))",
  "            return Posterior(self._likelihoods[0], self._distributions[0], name=self._distributions[0].name)")
m("c01_positional_order_reversed", "C01", "cuqi/distribution/_joint_distribution.py",
  "            ordered_keys = self.get_parameter_names()\n            for index, arg in enumerate(args):",
  "            ordered_keys = self.get_parameter_names()[::-1] if len(args) > 1 else self.get_parameter_names()\n            for index, arg in enumerate(args):")
m("c01_logd_without_name_check", "C01", "cuqi/distribution/_joint_distribution.py",
  "        if set(self.get_parameter_names()) != set(kwargs.keys()):\n            raise ValueError(f\"To evaluate the log density function, all parameters must be passed.",
  "        if not set(self.get_parameter_names()) <= set(kwargs.keys()):\n            raise ValueError(f\"To evaluate the log density function, all parameters must be passed.")
m("c01_distribution_branch_drops_constants", "C01", "cuqi/distribution/_joint_distribution.py",
  "            return self._add_constants_to_density(self._distributions[0])        ",
  "            return self._distributions[0]")

# ---------------------------------------------------------------- C05 (streams)
m("c05_normal_rng_branch_uses_global", "C05", "cuqi/distribution/_normal.py",
  "            s =  rng.normal(self.mean, self.std, (N,self.dim)).T",
  "            s =  np.random.normal(self.mean, self.std, (N,self.dim)).T")
m("c05_gmrf_periodic_imag_from_global", "C05", "cuqi/distribution/_gmrf.py",
  "                xi = rng.standard_normal((self.dim, N)) + 1j*rng.standard_normal((self.dim, N))",
  "                xi = rng.standard_normal((self.dim, N)) + 1j*np.random.standard_normal((self.dim, N))")
m("c05_single_draw_returns_samples", "C05", "cuqi/distribution/_distribution.py",
  "        #Store samples in cuqi samples object if more than 1 sample\n        if N==1:",
  "        #Store samples in cuqi samples object if more than 1 sample\n        if N==1 and self.dim > 1:")
m("c05_is_cond_check_removed", "C05", "cuqi/distribution/_distribution.py",
  "        if self.is_cond:\n            raise ValueError(f\"Cannot sample from conditional distribution.",
  "        if self.is_cond and N > 1:\n            raise ValueError(f\"Cannot sample from conditional distribution.")
m("c05_gamma_rng_ignored", "C05", "cuqi/distribution/_gamma.py",
  "            return rng.gamma(shape=self.shape, scale=self.scale, size=(N, self.dim)).T",
  "            return np.random.gamma(shape=self.shape, scale=self.scale, size=(N, self.dim)).T")
m("c05_legacy_mala_uniform_from_global", "C05", L + "_langevin_algorithm.py",
  "        log_u = np.log(cuqi.distribution.Uniform(low=0, high=1).sample(rng=self.rng))",
  "        log_u = np.log(cuqi.distribution.Uniform(low=0, high=1).sample())")
m("c05_lognormal_drops_rng", "C05", "cuqi/distribution/_lognormal.py",
  "        return np.exp(self._normal._sample(N,rng))",
  "        return np.exp(self._normal._sample(N))")
