#!/venv/bin/python
"""Regenerates /verif/MANIFEST.json from the engine plan (single source of truth)."""
import json, os, sys
VERIF = os.path.dirname(os.path.dirname(os.path.abspath(__file__)))
sys.path.insert(0, VERIF)
from engines.meta import CHECKS, NOT_APPLICABLE, ENGINES, HOOK_COMMITS

m = {
    "version": 1,
    "setup_cmd": "cd /verif && /venv/bin/python -W ignore -c \"import numpy, scipy, cuqi, sys; sys.path.insert(0,'/verif'); import sim.core, engines; print('ok', cuqi.__file__)\"",
    "hooks": {
        "guard": "CUQIPY_VERIF",
        "enable": "no hook in /repo is needed: every seam is a constructor argument, a module attribute looked up at call time (numpy.random.*, tqdm) or a module global that can be shadowed (open in cuqi.experimental.mcmc._sampler); checks import /repo's working tree through /venv's editable install",
        "baseline_off_cmd": "cd /repo && /venv/bin/python -m pytest -ra -q -p no:cacheprovider --timeout=900 --continue-on-collection-errors",
        "source_commits": HOOK_COMMITS,
        "add_only": True,
    },
    "engines": ENGINES,
    "checks": CHECKS,
    "not_applicable": NOT_APPLICABLE,
    "notes": "Deterministic simulation with fault injection; see DESIGN.md. Genuine defects found on the pinned tree are listed in known_findings.json (open = KNOWN-FINDING lines, fixed = repaired by a fix: commit in /repo).",
}
with open(os.path.join(VERIF, "MANIFEST.json"), "w") as f:
    json.dump(m, f, indent=1)
print("MANIFEST.json written:", len(CHECKS), "checks,", len(NOT_APPLICABLE), "not applicable")
